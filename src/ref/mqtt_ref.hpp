// Independent MQTT 5.0 reference codec, written from the OASIS specification text
// (mqtt-v5.0-os). It shares no code with /repo. Used as an oracle by the codec
// enumerators (C16-C19) and by the reference broker of the simnet engine.
//
// Strict decoder: fixed-header flags, minimal Remaining Length encoding, per-packet
// property whitelist, at-most-once properties (except User Property; Subscription
// Identifier may repeat in PUBLISH), UTF-8 well-formedness (MQTT 1.5.4), no trailing
// bytes, value ranges.
#pragma once
#include <cstdint>
#include <cstring>
#include <optional>
#include <string>
#include <utility>
#include <vector>
#include <algorithm>
#include <sstream>

namespace ref {

using Bytes = std::string;

enum PType : uint8_t {
    CONNECT = 1, CONNACK = 2, PUBLISH = 3, PUBACK = 4, PUBREC = 5, PUBREL = 6,
    PUBCOMP = 7, SUBSCRIBE = 8, SUBACK = 9, UNSUBSCRIBE = 10, UNSUBACK = 11,
    PINGREQ = 12, PINGRESP = 13, DISCONNECT = 14, AUTH = 15,
    WILL = 16 // pseudo type: will properties inside CONNECT
};

inline const char* ptype_name(int t) {
    static const char* n[] = {"RESERVED0","CONNECT","CONNACK","PUBLISH","PUBACK","PUBREC","PUBREL",
        "PUBCOMP","SUBSCRIBE","SUBACK","UNSUBSCRIBE","UNSUBACK","PINGREQ","PINGRESP","DISCONNECT","AUTH","WILL"};
    return (t >= 0 && t <= 16) ? n[t] : "?";
}

// ---------------------------------------------------------------- UTF-8 / MQTT strings

// Decodes one scalar value from well-formed UTF-8 (Unicode Table 3-7). Returns number of
// bytes consumed or 0 if ill-formed at this position.
inline int utf8_decode_one(const unsigned char* p, size_t n, uint32_t& cp) {
    if (n == 0) return 0;
    unsigned char b0 = p[0];
    if (b0 <= 0x7F) { cp = b0; return 1; }
    if (b0 >= 0xC2 && b0 <= 0xDF) {
        if (n < 2 || p[1] < 0x80 || p[1] > 0xBF) return 0;
        cp = ((b0 & 0x1Fu) << 6) | (p[1] & 0x3Fu); return 2;
    }
    if (b0 >= 0xE0 && b0 <= 0xEF) {
        if (n < 3) return 0;
        unsigned char lo = 0x80, hi = 0xBF;
        if (b0 == 0xE0) lo = 0xA0;
        if (b0 == 0xED) hi = 0x9F;
        if (p[1] < lo || p[1] > hi) return 0;
        if (p[2] < 0x80 || p[2] > 0xBF) return 0;
        cp = ((b0 & 0x0Fu) << 12) | ((p[1] & 0x3Fu) << 6) | (p[2] & 0x3Fu); return 3;
    }
    if (b0 >= 0xF0 && b0 <= 0xF4) {
        if (n < 4) return 0;
        unsigned char lo = 0x80, hi = 0xBF;
        if (b0 == 0xF0) lo = 0x90;
        if (b0 == 0xF4) hi = 0x8F;
        if (p[1] < lo || p[1] > hi) return 0;
        if (p[2] < 0x80 || p[2] > 0xBF) return 0;
        if (p[3] < 0x80 || p[3] > 0xBF) return 0;
        cp = ((b0 & 0x07u) << 18) | ((p[1] & 0x3Fu) << 12) | ((p[2] & 0x3Fu) << 6) | (p[3] & 0x3Fu);
        return 4;
    }
    return 0;
}

// The code points the property statements exclude: U+0000, C0/C1 controls (U+0001..U+001F,
// U+007F..U+009F), surrogates (excluded by well-formedness), non-characters
// (U+FDD0..U+FDEF and U+nFFFE/U+nFFFF for every plane).
inline bool mqtt_char_ok(uint32_t cp) {
    if (cp == 0) return false;
    if (cp <= 0x1F) return false;
    if (cp >= 0x7F && cp <= 0x9F) return false;
    if (cp >= 0xD800 && cp <= 0xDFFF) return false;
    if (cp >= 0xFDD0 && cp <= 0xFDEF) return false;
    if ((cp & 0xFFFE) == 0xFFFE) return false;
    if (cp > 0x10FFFF) return false;
    return true;
}

// Well-formed MQTT UTF-8 string content (without the length prefix). If cps != nullptr the
// decoded scalar values are appended.
inline bool mqtt_utf8_ok(const std::string& s, std::vector<uint32_t>* cps = nullptr) {
    if (s.size() > 65535) return false;
    const unsigned char* p = reinterpret_cast<const unsigned char*>(s.data());
    size_t n = s.size(), i = 0;
    while (i < n) {
        uint32_t cp; int k = utf8_decode_one(p + i, n - i, cp);
        if (k == 0) return false;
        if (!mqtt_char_ok(cp)) return false;
        if (cps) cps->push_back(cp);
        i += k;
    }
    return true;
}

// Lenient variant used by the *wire* decoder: spec 1.5.4 makes U+0000 and ill-formed UTF-8 a
// Malformed Packet, but says control characters / non-characters "SHOULD NOT" be included, so a
// receiver MAY accept them. The strict wire decoder rejects what the spec makes mandatory only.
inline bool wire_utf8_ok(const std::string& s) {
    if (s.size() > 65535) return false;
    const unsigned char* p = reinterpret_cast<const unsigned char*>(s.data());
    size_t n = s.size(), i = 0;
    while (i < n) {
        uint32_t cp; int k = utf8_decode_one(p + i, n - i, cp);
        if (k == 0) return false;
        if (cp == 0) return false;
        i += k;
    }
    return true;
}

inline bool topic_name_ok(const std::string& s) { // MQTT 4.7: no wildcards, >= 1 char
    if (s.empty()) return false;
    if (!mqtt_utf8_ok(s)) return false;
    for (char c : s) if (c == '#' || c == '+') return false;
    return true;
}
inline bool topic_alias_name_ok(const std::string& s) { // empty allowed when alias is used
    if (s.empty()) return true;
    return topic_name_ok(s);
}
inline bool topic_filter_ok(const std::string& s) { // MQTT 4.7.1
    if (s.empty()) return false;
    if (!mqtt_utf8_ok(s)) return false;
    // split in levels on '/'
    size_t start = 0;
    for (;;) {
        size_t pos = s.find('/', start);
        std::string lvl = s.substr(start, pos == std::string::npos ? std::string::npos : pos - start);
        bool last = (pos == std::string::npos);
        bool has_hash = lvl.find('#') != std::string::npos;
        bool has_plus = lvl.find('+') != std::string::npos;
        if (has_hash && !(lvl == "#" && last)) return false;
        if (has_plus && lvl != "+") return false;
        if (last) break;
        start = pos + 1;
    }
    return true;
}
// $share/{ShareName}/{filter}: ShareName >= 1 char, no '/', '+', '#'; filter is a topic filter.
inline bool shared_filter_ok(const std::string& s, bool wildcard_allowed = true) {
    const std::string pre = "$share/";
    if (s.compare(0, pre.size(), pre) != 0) return false;
    if (!mqtt_utf8_ok(s)) return false;
    std::string rest = s.substr(pre.size());
    size_t pos = rest.find('/');
    if (pos == std::string::npos) return false;
    std::string name = rest.substr(0, pos);
    if (name.empty()) return false;
    for (char c : name) if (c == '#' || c == '+') return false;
    std::string filt = rest.substr(pos + 1);
    return wildcard_allowed ? topic_filter_ok(filt) : topic_name_ok(filt);
}


// Structure-only check of a topic filter as it appears on the wire: wildcard placement and
// non-emptiness, ignoring which characters the levels consist of.
inline bool filter_structure_ok(const std::string& f) {
    if (f.empty()) return false;
    auto neutral = [](std::string s) { for (auto& c : s) if (c != '#' && c != '+' && c != '/') c = 'a'; return s; };
    if (f.compare(0, 7, "$share/") == 0) {
        size_t pos = f.find('/', 7);
        if (pos == std::string::npos || pos == 7) return false;
        std::string nm = f.substr(7, pos - 7);
        if (nm.find_first_of("#+") != std::string::npos) return false;
        return topic_filter_ok(neutral(f.substr(pos + 1)));
    }
    return topic_filter_ok(neutral(f));
}

// ---------------------------------------------------------------- properties

enum PropKind : uint8_t { K_BYTE, K_U16, K_U32, K_VARINT, K_UTF8, K_BIN, K_PAIR };

struct PropDef { uint8_t id; PropKind kind; uint32_t allowed; const char* name; };

constexpr uint32_t bit(int t) { return 1u << t; }

inline const PropDef* prop_def(uint8_t id) {
    static const PropDef defs[] = {
        {0x01, K_BYTE,   bit(PUBLISH)|bit(WILL), "payload_format_indicator"},
        {0x02, K_U32,    bit(PUBLISH)|bit(WILL), "message_expiry_interval"},
        {0x03, K_UTF8,   bit(PUBLISH)|bit(WILL), "content_type"},
        {0x08, K_UTF8,   bit(PUBLISH)|bit(WILL), "response_topic"},
        {0x09, K_BIN,    bit(PUBLISH)|bit(WILL), "correlation_data"},
        {0x0B, K_VARINT, bit(PUBLISH)|bit(SUBSCRIBE), "subscription_identifier"},
        {0x11, K_U32,    bit(CONNECT)|bit(CONNACK)|bit(DISCONNECT), "session_expiry_interval"},
        {0x12, K_UTF8,   bit(CONNACK), "assigned_client_identifier"},
        {0x13, K_U16,    bit(CONNACK), "server_keep_alive"},
        {0x15, K_UTF8,   bit(CONNECT)|bit(CONNACK)|bit(AUTH), "authentication_method"},
        {0x16, K_BIN,    bit(CONNECT)|bit(CONNACK)|bit(AUTH), "authentication_data"},
        {0x17, K_BYTE,   bit(CONNECT), "request_problem_information"},
        {0x18, K_U32,    bit(WILL), "will_delay_interval"},
        {0x19, K_BYTE,   bit(CONNECT), "request_response_information"},
        {0x1A, K_UTF8,   bit(CONNACK), "response_information"},
        {0x1C, K_UTF8,   bit(CONNACK)|bit(DISCONNECT), "server_reference"},
        {0x1F, K_UTF8,   bit(CONNACK)|bit(PUBACK)|bit(PUBREC)|bit(PUBREL)|bit(PUBCOMP)|bit(SUBACK)|
                         bit(UNSUBACK)|bit(DISCONNECT)|bit(AUTH), "reason_string"},
        {0x21, K_U16,    bit(CONNECT)|bit(CONNACK), "receive_maximum"},
        {0x22, K_U16,    bit(CONNECT)|bit(CONNACK), "topic_alias_maximum"},
        {0x23, K_U16,    bit(PUBLISH), "topic_alias"},
        {0x24, K_BYTE,   bit(CONNACK), "maximum_qos"},
        {0x25, K_BYTE,   bit(CONNACK), "retain_available"},
        {0x26, K_PAIR,   bit(CONNECT)|bit(CONNACK)|bit(PUBLISH)|bit(WILL)|bit(PUBACK)|bit(PUBREC)|
                         bit(PUBREL)|bit(PUBCOMP)|bit(SUBSCRIBE)|bit(SUBACK)|bit(UNSUBSCRIBE)|
                         bit(UNSUBACK)|bit(DISCONNECT)|bit(AUTH), "user_property"},
        {0x27, K_U32,    bit(CONNECT)|bit(CONNACK), "maximum_packet_size"},
        {0x28, K_BYTE,   bit(CONNACK), "wildcard_subscription_available"},
        {0x29, K_BYTE,   bit(CONNACK), "subscription_identifier_available"},
        {0x2A, K_BYTE,   bit(CONNACK), "shared_subscription_available"},
    };
    for (const auto& d : defs) if (d.id == id) return &d;
    return nullptr;
}

struct Prop {
    uint8_t id = 0;
    uint32_t num = 0;      // BYTE/U16/U32/VARINT
    std::string s1, s2;    // UTF8/BIN: s1; PAIR: s1,s2
    bool operator==(const Prop& o) const { return id == o.id && num == o.num && s1 == o.s1 && s2 == o.s2; }
    bool operator<(const Prop& o) const {
        if (id != o.id) return id < o.id;
        if (num != o.num) return num < o.num;
        if (s1 != o.s1) return s1 < o.s1;
        return s2 < o.s2;
    }
};
using Props = std::vector<Prop>;

inline Prop pnum(uint8_t id, uint32_t v) { Prop p; p.id = id; p.num = v; return p; }
inline Prop pstr(uint8_t id, std::string s) { Prop p; p.id = id; p.s1 = std::move(s); return p; }
inline Prop ppair(std::string k, std::string v) { Prop p; p.id = 0x26; p.s1 = std::move(k); p.s2 = std::move(v); return p; }

// Order-insensitive comparison except that relative order of repeated properties
// (user properties, subscription identifiers) is significant.
inline Props canon(Props p) {
    std::stable_sort(p.begin(), p.end(), [](const Prop& a, const Prop& b){ return a.id < b.id; });
    return p;
}
inline bool props_equal(const Props& a, const Props& b) { return canon(a) == canon(b); }

// ---------------------------------------------------------------- packet

struct Packet {
    uint8_t type = 0;
    uint8_t flags = 0;           // low nibble of byte 0 as seen / to emit
    // ids & reason
    bool has_pid = false; uint16_t pid = 0;
    bool has_rc = false; uint8_t rc = 0;   // for acks/DISCONNECT/AUTH: whether the byte is present
    bool has_props = true;                  // whether a property length is present (short forms)
    Props props;
    // CONNECT
    std::string client_id; std::optional<std::string> user, pass;
    uint16_t keep_alive = 0; bool clean_start = false;
    bool has_will = false; Props will_props; std::string will_topic, will_payload;
    uint8_t will_qos = 0; bool will_retain = false;
    // CONNACK
    bool session_present = false;
    // PUBLISH
    std::string topic, payload;
    uint8_t qos() const { return (flags >> 1) & 3; }
    bool retain() const { return flags & 1; }
    bool dup() const { return flags & 8; }
    // SUBSCRIBE / UNSUBSCRIBE
    std::vector<std::pair<std::string, uint8_t>> filters; // opts byte unused for UNSUBSCRIBE
    // SUBACK / UNSUBACK
    std::vector<uint8_t> rcs;
};

// ---------------------------------------------------------------- encoder

inline void put_u16(Bytes& b, uint16_t v) { b.push_back(char(v >> 8)); b.push_back(char(v & 0xFF)); }
inline void put_u32(Bytes& b, uint32_t v) { for (int i = 3; i >= 0; --i) b.push_back(char((v >> (8*i)) & 0xFF)); }
inline void put_varint(Bytes& b, uint32_t v) {
    do { uint8_t d = v & 0x7F; v >>= 7; if (v) d |= 0x80; b.push_back(char(d)); } while (v);
}
inline void put_str(Bytes& b, const std::string& s) { put_u16(b, uint16_t(s.size())); b += s; }

inline Bytes enc_props_body(const Props& ps) {
    Bytes b;
    for (const auto& p : ps) {
        const PropDef* d = prop_def(p.id);
        b.push_back(char(p.id));
        PropKind k = d ? d->kind : K_BYTE;
        switch (k) {
            case K_BYTE: b.push_back(char(p.num)); break;
            case K_U16: put_u16(b, uint16_t(p.num)); break;
            case K_U32: put_u32(b, p.num); break;
            case K_VARINT: put_varint(b, p.num); break;
            case K_UTF8: case K_BIN: put_str(b, p.s1); break;
            case K_PAIR: put_str(b, p.s1); put_str(b, p.s2); break;
        }
    }
    return b;
}
inline void put_props(Bytes& b, const Props& ps) {
    Bytes body = enc_props_body(ps);
    put_varint(b, uint32_t(body.size())); b += body;
}

inline Bytes frame(uint8_t type, uint8_t flags, const Bytes& body) {
    Bytes b; b.push_back(char((type << 4) | (flags & 0x0F)));
    put_varint(b, uint32_t(body.size())); b += body; return b;
}

// Encodes p. Short forms (acks, DISCONNECT, AUTH): has_rc=false omits reason code and
// properties; has_props=false omits the property length (only legal when props is empty).
inline Bytes encode(const Packet& p) {
    Bytes body;
    switch (p.type) {
    case CONNECT: {
        put_str(body, "MQTT"); body.push_back(5);
        uint8_t f = 0;
        if (p.user) f |= 0x80; if (p.pass) f |= 0x40;
        if (p.has_will) { f |= 0x04; f |= (p.will_qos & 3) << 3; if (p.will_retain) f |= 0x20; }
        if (p.clean_start) f |= 0x02;
        body.push_back(char(f)); put_u16(body, p.keep_alive); put_props(body, p.props);
        put_str(body, p.client_id);
        if (p.has_will) { put_props(body, p.will_props); put_str(body, p.will_topic); put_str(body, p.will_payload); }
        if (p.user) put_str(body, *p.user);
        if (p.pass) put_str(body, *p.pass);
        return frame(CONNECT, 0, body);
    }
    case CONNACK:
        body.push_back(p.session_present ? 1 : 0); body.push_back(char(p.rc)); put_props(body, p.props);
        return frame(CONNACK, 0, body);
    case PUBLISH:
        put_str(body, p.topic);
        if (p.qos() > 0) put_u16(body, p.pid);
        put_props(body, p.props); body += p.payload;
        return frame(PUBLISH, p.flags, body);
    case PUBACK: case PUBREC: case PUBREL: case PUBCOMP:
        put_u16(body, p.pid);
        if (p.has_rc) { body.push_back(char(p.rc)); if (p.has_props) put_props(body, p.props); }
        return frame(p.type, p.type == PUBREL ? 2 : 0, body);
    case SUBSCRIBE:
        put_u16(body, p.pid); put_props(body, p.props);
        for (auto& f : p.filters) { put_str(body, f.first); body.push_back(char(f.second)); }
        return frame(SUBSCRIBE, 2, body);
    case UNSUBSCRIBE:
        put_u16(body, p.pid); put_props(body, p.props);
        for (auto& f : p.filters) put_str(body, f.first);
        return frame(UNSUBSCRIBE, 2, body);
    case SUBACK: case UNSUBACK:
        put_u16(body, p.pid); put_props(body, p.props);
        for (auto rc : p.rcs) body.push_back(char(rc));
        return frame(p.type, 0, body);
    case PINGREQ: case PINGRESP:
        return frame(p.type, 0, body);
    case DISCONNECT: case AUTH:
        if (p.has_rc) { body.push_back(char(p.rc)); if (p.has_props) put_props(body, p.props); }
        return frame(p.type, 0, body);
    }
    return Bytes();
}

// ---------------------------------------------------------------- reason code tables (MQTT 5 §3.x.2.1)

// listed(cat, code): MQTT 5 lists the code for this packet type (sent by anyone).
// server_may_send(cat, code): the table's "sent by" column includes the Server.
inline bool rc_in(const std::initializer_list<uint8_t>& l, uint8_t c) { for (auto x : l) if (x == c) return true; return false; }
inline bool rc_listed(int type, uint8_t c) {
    switch (type) {
    case CONNACK: return rc_in({0x00,0x80,0x81,0x82,0x83,0x84,0x85,0x86,0x87,0x88,0x89,0x8A,0x8C,0x90,0x95,0x97,0x99,0x9A,0x9B,0x9C,0x9D,0x9F}, c);
    case PUBACK: case PUBREC: return rc_in({0x00,0x10,0x80,0x83,0x87,0x90,0x91,0x97,0x99}, c);
    case PUBREL: case PUBCOMP: return rc_in({0x00,0x92}, c);
    case SUBACK: return rc_in({0x00,0x01,0x02,0x80,0x83,0x87,0x8F,0x91,0x97,0x9E,0xA1,0xA2}, c);
    case UNSUBACK: return rc_in({0x00,0x11,0x80,0x83,0x87,0x8F,0x91}, c);
    case AUTH: return rc_in({0x00,0x18,0x19}, c);
    case DISCONNECT: return rc_in({0x00,0x04,0x80,0x81,0x82,0x83,0x87,0x89,0x8B,0x8D,0x8E,0x8F,0x90,0x93,0x94,0x95,0x96,0x97,0x98,0x99,0x9A,0x9B,0x9C,0x9D,0x9E,0x9F,0xA0,0xA1,0xA2}, c);
    }
    return false;
}
inline bool rc_server_may_send(int type, uint8_t c) {
    if (!rc_listed(type, c)) return false;
    if (type == AUTH && c == 0x19) return false;       // Re-authenticate: Client only
    if (type == DISCONNECT && c == 0x04) return false; // Disconnect with Will Message: Client only
    return true;
}

// ---------------------------------------------------------------- strict decoder

enum DStatus { D_OK, D_INCOMPLETE, D_MALFORMED };
// strict = everything the specification lets a receiver reject; structural = only what makes the packet unparseable
// (framing, lengths, property identifiers/types, header flags, inadmissible reason codes, trailing bytes): no UTF-8
// content rules and no value-range (Protocol Error) rules.
struct DecOpts { bool utf8 = true; bool ranges = true; };   // ranges=false also tolerates non-minimal varints and an absent Property Length
inline DecOpts& dec_opts() { static thread_local DecOpts o; return o; }
struct StructuralScope { DecOpts saved; StructuralScope() : saved(dec_opts()) { dec_opts().utf8 = false; dec_opts().ranges = false; } ~StructuralScope() { dec_opts() = saved; } };
struct DResult { DStatus st = D_MALFORMED; Packet pkt; size_t consumed = 0; std::string why; };

struct Rd {
    const unsigned char* p; size_t n; size_t i = 0; bool fail = false;
    Rd(const unsigned char* p_, size_t n_) : p(p_), n(n_) {}
    size_t left() const { return n - i; }
    uint8_t u8() { if (left() < 1) { fail = true; return 0; } return p[i++]; }
    uint16_t u16() { if (left() < 2) { fail = true; return 0; } uint16_t v = (p[i] << 8) | p[i+1]; i += 2; return v; }
    uint32_t u32() { if (left() < 4) { fail = true; return 0; } uint32_t v = (uint32_t(p[i])<<24)|(uint32_t(p[i+1])<<16)|(uint32_t(p[i+2])<<8)|p[i+3]; i += 4; return v; }
    // varint with minimal-encoding requirement
    uint32_t varint() {
        uint32_t v = 0; int shift = 0;
        for (int k = 0; k < 4; ++k) {
            if (left() < 1) { fail = true; return 0; }
            uint8_t b = p[i++]; v |= uint32_t(b & 0x7F) << shift; shift += 7;
            if (!(b & 0x80)) { if (k > 0 && b == 0 && dec_opts().ranges) fail = true; return v; }   // non-minimal encoding: value rule
        }
        fail = true; return 0;
    }
    std::string bin() { uint16_t l = u16(); if (fail || left() < l) { fail = true; return {}; } std::string s((const char*)p + i, l); i += l; return s; }
    std::string str() { std::string s = bin(); if (!fail && dec_opts().utf8 && !wire_utf8_ok(s)) fail = true; return s; }
};

inline bool dec_props(Rd& r, int ptype, Props& out, std::string& why) {
    if (r.left() == 0 && !dec_opts().ranges) return true;   // structural mode: an absent Property Length reads as 'no properties'
    uint32_t len = r.varint();
    if (r.fail) { why = "property length"; return false; }
    if (r.left() < len) { why = "property length exceeds packet"; return false; }
    Rd pr(r.p + r.i, len);
    uint64_t seen_lo = 0; // bitset for ids < 64
    while (pr.left() > 0) {
        uint8_t id = pr.u8();
        const PropDef* d = prop_def(id);
        if (!d) { why = "unknown property id"; return false; }
        if (!(d->allowed & bit(ptype))) { why = std::string("property not allowed here: ") + d->name; return false; }
        bool repeatable = (id == 0x26) || (id == 0x0B && ptype == PUBLISH);
        if (!repeatable && dec_opts().ranges) { if (seen_lo & (1ull << id)) { why = std::string("duplicate property: ") + d->name; return false; } seen_lo |= 1ull << id; }
        Prop p; p.id = id;
        switch (d->kind) {
            case K_BYTE: p.num = pr.u8(); break;
            case K_U16: p.num = pr.u16(); break;
            case K_U32: p.num = pr.u32(); break;
            case K_VARINT: p.num = pr.varint(); break;
            case K_UTF8: p.s1 = pr.str(); break;
            case K_BIN: p.s1 = pr.bin(); break;
            case K_PAIR: p.s1 = pr.str(); p.s2 = pr.str(); break;
        }
        if (pr.fail) { why = std::string("property value: ") + d->name; return false; }
        // value ranges the spec makes protocol errors
        if (dec_opts().ranges) {
        if ((id == 0x01 || id == 0x17 || id == 0x19 || id == 0x25 || id == 0x28 || id == 0x29 || id == 0x2A) && p.num > 1) { why = "boolean property > 1"; return false; }
        if (id == 0x24 && p.num > 1) { why = "maximum qos > 1"; return false; }
        if ((id == 0x21 || id == 0x27 || id == 0x0B) && p.num == 0) { why = "zero not allowed"; return false; }
        if (id == 0x23 && p.num == 0) { why = "topic alias 0"; return false; }
        }
        out.push_back(std::move(p));
    }
    r.i += len;
    return true;
}

// Decodes the first packet in [data, data+n). D_INCOMPLETE if more bytes are needed.
inline DResult decode(const unsigned char* data, size_t n) {
    DResult res;
    if (n < 2) { res.st = D_INCOMPLETE; return res; }
    uint8_t b0 = data[0];
    // remaining length
    uint32_t rl = 0; int shift = 0; size_t i = 1; bool done = false;
    for (int k = 0; k < 4; ++k) {
        if (i >= n) { res.st = D_INCOMPLETE; return res; }
        uint8_t b = data[i++]; rl |= uint32_t(b & 0x7F) << shift; shift += 7;
        if (!(b & 0x80)) { if (k > 0 && b == 0 && dec_opts().ranges) { res.why = "non-minimal remaining length"; return res; } /* minimal encoding is a value rule: structural mode tolerates it */ done = true; break; }
    }
    if (!done) { res.why = "remaining length > 4 bytes"; return res; }
    uint8_t type = b0 >> 4, flags = b0 & 0x0F;
    // header flags
    if (type == 0) { res.why = "reserved packet type 0"; return res; }
    if (type == PUBLISH) { if (((flags >> 1) & 3) == 3) { res.why = "QoS 3"; return res; } }
    else if (type == PUBREL || type == SUBSCRIBE || type == UNSUBSCRIBE) { if (flags != 2) { res.why = "fixed header flags"; return res; } }
    else if (flags != 0) { res.why = "fixed header flags"; return res; }
    if (n - i < rl) { res.st = D_INCOMPLETE; return res; }
    Rd r(data + i, rl);
    Packet& p = res.pkt; p.type = type; p.flags = flags;
    std::string& why = res.why;
    auto bad = [&](const char* w) { if (why.empty()) why = w; res.st = D_MALFORMED; return res; };
    switch (type) {
    case CONNECT: {
        std::string proto = r.str(); uint8_t ver = r.u8(); uint8_t f = r.u8(); p.keep_alive = r.u16();
        if (r.fail || proto != "MQTT" || ver != 5) return bad("protocol name/version");
        if (f & 1) return bad("connect reserved flag");
        p.clean_start = f & 2; p.has_will = f & 4; p.will_qos = (f >> 3) & 3; p.will_retain = f & 0x20;
        if (!p.has_will && (p.will_qos || p.will_retain)) return bad("will flags without will");
        if (p.will_qos == 3) return bad("will qos 3");
        if (!dec_props(r, CONNECT, p.props, why)) return bad("props");
        p.client_id = r.str();
        if (p.has_will) { if (!dec_props(r, WILL, p.will_props, why)) return bad("will props"); p.will_topic = r.str(); p.will_payload = r.bin(); }
        if (f & 0x80) p.user = r.str();
        if (f & 0x40) p.pass = r.bin();
        if (r.fail) return bad("connect payload");
        if (p.has_will && !topic_name_ok(p.will_topic) && !r.fail) {
            // will topic must be a topic name (no wildcards)
            bool wc = false; for (char c : p.will_topic) if (c == '#' || c == '+') wc = true;
            if (wc || p.will_topic.empty()) return bad("will topic");
        }
        break;
    }
    case CONNACK: {
        uint8_t f = r.u8(); p.rc = r.u8(); p.has_rc = true;
        if (r.fail || ((f & 0xFE) && dec_opts().ranges)) return bad("connack flags");   // reserved acknowledge-flag bits: value rule, not framing
        p.session_present = f & 1;
        if (!dec_props(r, CONNACK, p.props, why)) return bad("props");
        if (!rc_listed(CONNACK, p.rc)) return bad("reason code");
        if (dec_opts().ranges && p.rc != 0 && p.session_present) return bad("session present with error");
        break;
    }
    case PUBLISH: {
        p.topic = r.str();
        if (r.fail) return bad("topic");
        if (dec_opts().ranges) for (char c : p.topic) if (c == '#' || c == '+') return bad("wildcard in topic name"); /* content of a string: value rule */
        if (p.qos() > 0) { p.has_pid = true; p.pid = r.u16(); if (r.fail || (p.pid == 0 && dec_opts().ranges)) return bad("packet id"); }   // id 0 is a value rule, not a framing rule
        else if (p.dup()) return bad("DUP with QoS 0");
        if (!dec_props(r, PUBLISH, p.props, why)) return bad("props");
        p.payload.assign((const char*)r.p + r.i, r.left()); r.i = r.n;
        bool alias = false; for (auto& q : p.props) if (q.id == 0x23) alias = true;
        if (p.topic.empty() && !alias) return bad("empty topic without alias");
        break;
    }
    case PUBACK: case PUBREC: case PUBREL: case PUBCOMP: {
        p.has_pid = true; p.pid = r.u16();
        // an acknowledgement echoes the identifier of the packet it answers: 0 is only refused for PUBREL (the sender's own id) in strict mode
        if (r.fail || (p.pid == 0 && type == PUBREL && dec_opts().ranges)) return bad("packet id");
        p.has_rc = false; p.has_props = false;
        if (r.left() > 0) { p.has_rc = true; p.rc = r.u8(); if (!rc_listed(type, p.rc)) return bad("reason code"); }
        if (r.left() > 0) { p.has_props = true; if (!dec_props(r, type, p.props, why)) return bad("props"); }
        break;
    }
    case SUBSCRIBE: {
        p.has_pid = true; p.pid = r.u16(); if (r.fail || p.pid == 0) return bad("packet id");
        if (!dec_props(r, SUBSCRIBE, p.props, why)) return bad("props");
        if (r.left() == 0) return bad("no topic filters");
        while (r.left() > 0) {
            std::string f = r.str(); uint8_t o = r.u8();
            if (r.fail) return bad("filter");
            if (o & 0xC0) return bad("subscription options reserved bits");
            if ((o & 3) == 3) return bad("subscription qos 3");
            if (((o >> 4) & 3) == 3) return bad("retain handling 3");
            bool shared = f.compare(0, 7, "$share/") == 0;
            // only the structural rules (wildcard placement, emptiness) are mandatory on the wire
            if (!filter_structure_ok(f)) return bad("topic filter");
            if (shared && (o & 4)) return bad("no_local on shared subscription");
            p.filters.emplace_back(std::move(f), o);
        }
        break;
    }
    case UNSUBSCRIBE: {
        p.has_pid = true; p.pid = r.u16(); if (r.fail || p.pid == 0) return bad("packet id");
        if (!dec_props(r, UNSUBSCRIBE, p.props, why)) return bad("props");
        if (r.left() == 0) return bad("no topic filters");
        while (r.left() > 0) { std::string f = r.str(); if (r.fail) return bad("filter"); p.filters.emplace_back(std::move(f), 0); }
        break;
    }
    case SUBACK: case UNSUBACK: {
        p.has_pid = true; p.pid = r.u16(); if (r.fail || p.pid == 0) return bad("packet id");
        if (!dec_props(r, type, p.props, why)) return bad("props");
        if (r.left() == 0) return bad("no reason codes");
        while (r.left() > 0) { uint8_t c = r.u8(); if (!rc_listed(type, c)) return bad("reason code"); p.rcs.push_back(c); }
        break;
    }
    case PINGREQ: case PINGRESP:
        if (rl != 0) return bad("ping with body");
        break;
    case DISCONNECT: case AUTH: {
        p.has_rc = false; p.has_props = false;
        if (r.left() > 0) { p.has_rc = true; p.rc = r.u8(); if (!rc_listed(type, p.rc)) return bad("reason code"); }
        if (r.left() > 0) { p.has_props = true; if (!dec_props(r, type, p.props, why)) return bad("props"); }
        break;
    }
    }
    if (r.fail) return bad("truncated field");
    if (r.left() != 0) return bad("trailing bytes");
    res.st = D_OK; res.consumed = i + rl;
    return res;
}
inline DResult decode(const Bytes& b) { return decode((const unsigned char*)b.data(), b.size()); }

// ---------------------------------------------------------------- printing

inline std::string hex(const Bytes& b, size_t max = 64) {
    static const char* d = "0123456789abcdef"; std::string s;
    for (size_t i = 0; i < b.size() && i < max; ++i) { unsigned char c = b[i]; s.push_back(d[c >> 4]); s.push_back(d[c & 15]); }
    if (b.size() > max) s += "..(" + std::to_string(b.size()) + ")";
    return s;
}
inline std::string describe(const Packet& p) {
    std::ostringstream o; o << ptype_name(p.type);
    if (p.type == PUBLISH) o << "(q" << int(p.qos()) << (p.dup() ? ",dup" : "") << (p.retain() ? ",ret" : "") << ",t=" << p.topic << ",pl=" << hex(p.payload, 12) << ")";
    if (p.has_pid) o << "#" << p.pid;
    if (p.has_rc) o << " rc=" << std::hex << int(p.rc) << std::dec;
    if (p.type == CONNACK) o << " sp=" << p.session_present;
    if (!p.rcs.empty()) { o << " rcs=["; for (auto c : p.rcs) o << std::hex << int(c) << std::dec << ","; o << "]"; }
    if (!p.filters.empty()) { o << " ["; for (auto& f : p.filters) o << f.first << ":" << int(f.second) << ","; o << "]"; }
    if (!p.props.empty()) o << " props=" << p.props.size();
    return o.str();
}

} // namespace ref
