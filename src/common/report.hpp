// Minimal JSON report writer shared by all harness binaries.
// A harness prints exactly one JSON object on the file given by --out (or stdout):
// { "evaluations":..., "distinct_nontrivial":..., "states":..., "transitions":...,
//   "traces_validated_against_impl":..., "exhaustive":bool, "rule":"...",
//   "samples":[...], "violations":[{"sig":"..","detail":"..","replay":<json>}], "notes":{...} }
#pragma once
#include <cstdint>
#include <cstdio>
#include <map>
#include <string>
#include <vector>
#include <cstring>

namespace rep {

inline std::string jstr(const std::string& s) {
    std::string o = "\"";
    for (unsigned char c : s) {
        switch (c) {
            case '"': o += "\\\""; break;
            case '\\': o += "\\\\"; break;
            case '\n': o += "\\n"; break;
            case '\r': o += "\\r"; break;
            case '\t': o += "\\t"; break;
            default:
                if (c < 0x20 || c >= 0x7F) { char b[8]; snprintf(b, sizeof b, "\\u%04x", c); o += b; }
                else o.push_back(char(c));
        }
    }
    o += "\"";
    return o;
}

inline std::string hex(const std::string& b) {
    static const char* d = "0123456789abcdef"; std::string s;
    for (unsigned char c : b) { s.push_back(d[c >> 4]); s.push_back(d[c & 15]); }
    return s;
}
inline std::string unhex(const std::string& h) {
    std::string o; auto v = [](char c) { return c <= '9' ? c - '0' : (c | 32) - 'a' + 10; };
    for (size_t i = 0; i + 1 < h.size(); i += 2) o.push_back(char((v(h[i]) << 4) | v(h[i+1])));
    return o;
}

struct Violation { std::string sig, detail, replay_json; };

struct Report {
    uint64_t evaluations = 0, distinct_nontrivial = 0, states = 0, transitions = 0, traces = 0;
    bool exhaustive = true;
    std::string rule;
    std::vector<std::string> samples;        // each already JSON
    std::vector<Violation> violations;       // deduplicated by sig (first kept) + count
    std::map<std::string, uint64_t> vio_count;
    std::map<std::string, std::string> notes; // key -> JSON value
    size_t max_samples = 6;

    void sample(const std::string& json) { if (samples.size() < max_samples) samples.push_back(json); }
    void violation(const std::string& sig, const std::string& detail, const std::string& replay_json) {
        if (vio_count[sig]++ == 0) violations.push_back({sig, detail, replay_json});
    }
    void note(const std::string& k, const std::string& json) { notes[k] = json; }
    void note_num(const std::string& k, uint64_t v) { notes[k] = std::to_string(v); }

    std::string to_json() const {
        std::string o = "{";
        o += "\"evaluations\":" + std::to_string(evaluations);
        o += ",\"distinct_nontrivial\":" + std::to_string(distinct_nontrivial);
        o += ",\"states\":" + std::to_string(states);
        o += ",\"transitions\":" + std::to_string(transitions);
        o += ",\"traces_validated_against_impl\":" + std::to_string(traces);
        o += std::string(",\"exhaustive\":") + (exhaustive ? "true" : "false");
        o += ",\"rule\":" + jstr(rule);
        o += ",\"samples\":[";
        for (size_t i = 0; i < samples.size(); ++i) { if (i) o += ","; o += samples[i]; }
        o += "],\"violations\":[";
        for (size_t i = 0; i < violations.size(); ++i) {
            if (i) o += ",";
            const auto& v = violations[i];
            o += "{\"sig\":" + jstr(v.sig) + ",\"detail\":" + jstr(v.detail) + ",\"count\":" +
                std::to_string(vio_count.at(v.sig)) + ",\"replay\":" + (v.replay_json.empty() ? "null" : v.replay_json) + "}";
        }
        o += "],\"notes\":{";
        bool first = true;
        for (auto& kv : notes) { if (!first) o += ","; first = false; o += jstr(kv.first) + ":" + kv.second; }
        o += "}}";
        return o;
    }
    int write(const char* path) const {
        std::string j = to_json();
        FILE* f = path ? fopen(path, "w") : stdout;
        if (!f) return 2;
        fwrite(j.data(), 1, j.size(), f); fputc('\n', f);
        if (path) fclose(f);
        return 0;
    }
};

inline const char* arg_value(int argc, char** argv, const char* name, const char* dflt = nullptr) {
    for (int i = 1; i + 1 < argc; ++i) if (!strcmp(argv[i], name)) return argv[i + 1];
    return dflt;
}
inline bool arg_flag(int argc, char** argv, const char* name) {
    for (int i = 1; i < argc; ++i) if (!strcmp(argv[i], name)) return true;
    return false;
}

} // namespace rep
