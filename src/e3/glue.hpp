// Conversions between the library's property containers and the reference codec's Props,
// plus generators for the presence / boundary enumeration spaces shared by C17, C18, C19.
#pragma once
#include <boost/mqtt5/types.hpp>
#include <boost/mqtt5/property_types.hpp>
#include "../ref/mqtt_ref.hpp"
#include <optional>
#include <type_traits>

namespace glue {
namespace m5 = boost::mqtt5;

template <typename T> struct is_opt : std::false_type {};
template <typename T> struct is_opt<std::optional<T>> : std::true_type {};

template <class P> ref::Props to_ref(const P& ps) {
    ref::Props out;
    ps.visit([&](const auto& key, const auto& val) -> bool {
        constexpr uint8_t id = std::decay_t<decltype(key)>::value;
        using V = std::decay_t<decltype(val)>;
        if constexpr (is_opt<V>::value) {
            if (val) { using T = typename V::value_type;
                if constexpr (std::is_same_v<T, std::string>) out.push_back(ref::pstr(id, *val));
                else out.push_back(ref::pnum(id, uint32_t(*val))); }
        }
        else if constexpr (std::is_same_v<V, m5::prop::subscription_identifiers>) { for (auto v : val) out.push_back(ref::pnum(id, uint32_t(v))); }
        else { for (auto& kv : val) out.push_back(ref::ppair(kv.first, kv.second)); }
        return true;
    });
    return out;
}

// returns false if some property of `in` has no slot in P
template <class P> bool from_ref(P& ps, const ref::Props& in) {
    bool all = true;
    for (auto& p : in) {
        bool found = false;
        ps.apply_on(p.id, [&](auto& v) {
            found = true; using V = std::decay_t<decltype(v)>;
            if constexpr (is_opt<V>::value) { using T = typename V::value_type;
                if constexpr (std::is_same_v<T, std::string>) v = p.s1; else v = T(p.num); }
            else if constexpr (std::is_same_v<V, m5::prop::subscription_identifiers>) v.push_back(int32_t(p.num));
            else v.emplace_back(p.s1, p.s2);
        });
        if (!found) all = false;
    }
    return all;
}

inline std::vector<uint8_t> allowed_ids(int ptype) {
    std::vector<uint8_t> v;
    for (int id = 1; id <= 0x2A; ++id) { auto d = ref::prop_def(uint8_t(id)); if (d && (d->allowed & ref::bit(ptype))) v.push_back(uint8_t(id)); }
    return v;
}

// representative value for presence enumeration
inline ref::Prop typical(uint8_t id) {
    auto d = ref::prop_def(id);
    switch (d->kind) {
        case ref::K_BYTE: return ref::pnum(id, 1);
        case ref::K_U16: return ref::pnum(id, 0x1234);
        case ref::K_U32: return ref::pnum(id, 0x01020304);
        case ref::K_VARINT: return ref::pnum(id, 300);
        case ref::K_UTF8: return ref::pstr(id, std::string("s") + char('a' + id % 26));
        case ref::K_BIN: return ref::pstr(id, std::string("\x00\x01\xff", 3));
        case ref::K_PAIR: return ref::ppair("k", "v");
    }
    return ref::Prop();
}

// boundary values for one property
inline std::vector<ref::Prop> boundaries(uint8_t id) {
    auto d = ref::prop_def(id); std::vector<ref::Prop> v;
    bool nonzero = (id == 0x21 || id == 0x27 || id == 0x0B || id == 0x23);
    auto strs = [](bool utf8) { std::vector<std::string> s = {"", "a", std::string(127, 'b'), std::string(128, 'c'), std::string(65535, 'd')};
        if (utf8) { s.push_back("\xC2\xA0\xE2\x82\xAC\xF0\x9F\x98\x80"); s.push_back("\xC3\xBE"); }
        else { std::string all; for (int i = 0; i < 256; ++i) all.push_back(char(i)); s.push_back(all); }
        return s; };
    switch (d->kind) {
        case ref::K_BYTE: v.push_back(ref::pnum(id, 0)); v.push_back(ref::pnum(id, 1)); break;
        case ref::K_U16: for (uint32_t x : {0u, 1u, 0x7Fu, 0x80u, 0xFFu, 0x100u, 0xFFFFu}) if (x || !nonzero) v.push_back(ref::pnum(id, x)); break;
        case ref::K_U32: for (uint32_t x : {0u, 1u, 0xFFu, 0x100u, 0xFFFFu, 0x10000u, 0xFFFFFFu, 0x1000000u, 0x7FFFFFFFu, 0x80000000u, 0xFFFFFFFFu}) if (x || !nonzero) v.push_back(ref::pnum(id, x)); break;
        case ref::K_VARINT: for (uint32_t x : {1u, 127u, 128u, 16383u, 16384u, 2097151u, 2097152u, 268435455u}) v.push_back(ref::pnum(id, x)); break;
        case ref::K_UTF8: for (auto& s : strs(true)) v.push_back(ref::pstr(id, s)); break;
        case ref::K_BIN: for (auto& s : strs(false)) v.push_back(ref::pstr(id, s)); break;
        case ref::K_PAIR: for (auto& k : {std::string(""), std::string("k"), std::string(65535, 'K')}) for (auto& w : {std::string(""), std::string("v"), std::string(65535, 'V')}) v.push_back(ref::ppair(k, w)); break;
    }
    return v;
}

} // namespace glue
