// Bounded-exhaustive codec enumeration against the independent reference codec.
//   --mode c18 : reference-encoded well-formed broker packets -> library decoders -> compare, re-encode, re-compare
//   --mode c17 : library encoders with the argument shapes the client uses -> strict reference decode -> compare
//   --mode c19 : hostile bodies (all short strings, mutations, truncations) -> library decoders with the input placed
//                against PROT_NONE guard pages; faults / exceptions / hangs are violations
#include <boost/mqtt5/impl/codecs/message_decoders.hpp>
#include <boost/mqtt5/impl/codecs/message_encoders.hpp>
#include <boost/mqtt5/reason_codes.hpp>
#include "glue.hpp"
#include "../common/report.hpp"
#include <csetjmp>
#include <csignal>
#include <functional>
#include <set>
#include <sys/mman.h>
#include <sys/wait.h>
#include <unistd.h>

namespace m5 = boost::mqtt5;
namespace dec = boost::mqtt5::decoders;
namespace enc = boost::mqtt5::encoders;
using citer = std::string::const_iterator;
using ref::Packet; using ref::Props; using ref::Bytes;

// ------------------------------------------------------------------ shared result area (fork workers)
struct VioSlot { char sig[120]; char detail[240]; char replay[1200]; uint64_t count; };   // replay: at most 280 wire bytes in hex + framing, never truncated
struct Shared {
    volatile uint64_t cases, calls, accepted, rejected, nontrivial, lenient; volatile int next; volatile int nvio;
    VioSlot vio[96]; char samples[8][400]; volatile int nsamples;
};
static Shared* SH;
static void add_violation(const std::string& sig, const std::string& detail, const std::string& replay) {
    for (int i = 0; i < SH->nvio && i < 96; ++i) if (!strncmp(SH->vio[i].sig, sig.c_str(), 119)) { __sync_fetch_and_add(&SH->vio[i].count, 1); return; }
    int k = __sync_fetch_and_add(&SH->nvio, 1); if (k >= 96) return;
    strncpy(SH->vio[k].sig, sig.c_str(), 119); strncpy(SH->vio[k].detail, detail.c_str(), 239); strncpy(SH->vio[k].replay, replay.size() < 1199 ? replay.c_str() : "{}", 1199); SH->vio[k].count = 1;
}
static void add_sample(const std::string& s) { if (s.size() >= 399) return; int k = __sync_fetch_and_add(&SH->nsamples, 1); if (k < 8) strncpy(SH->samples[k], s.c_str(), 399); }

// ------------------------------------------------------------------ guard-page arena
static const size_t PAGE = 4096, ARENA_PAGES = 320;
static char* g_arena;       // [guard][ARENA_PAGES pages][guard]
static void arena_init() {
    char* p = (char*)mmap(nullptr, (ARENA_PAGES + 2) * PAGE, PROT_READ | PROT_WRITE, MAP_PRIVATE | MAP_ANONYMOUS, -1, 0);
    mprotect(p, PAGE, PROT_NONE); mprotect(p + (ARENA_PAGES + 1) * PAGE, PAGE, PROT_NONE);
    g_arena = p + PAGE;
}
static const char* place_end(const char* data, size_t n) { char* dst = g_arena + ARENA_PAGES * PAGE - n; memcpy(dst, data, n); return dst; }
static const char* place_start(const char* data, size_t n) { memcpy(g_arena, data, n); return g_arena; }

static sigjmp_buf g_jmp; static volatile sig_atomic_t g_in_call = 0; static volatile int g_sig = 0;
static void on_fault(int sig) { if (g_in_call) { g_sig = sig; siglongjmp(g_jmp, 1); } _exit(99); }
static void install_handlers() {
    struct sigaction sa; memset(&sa, 0, sizeof sa); sa.sa_handler = on_fault; sa.sa_flags = SA_NODEFER; sigemptyset(&sa.sa_mask);
    sigaction(SIGSEGV, &sa, nullptr); sigaction(SIGBUS, &sa, nullptr); sigaction(SIGALRM, &sa, nullptr); sigaction(SIGFPE, &sa, nullptr); sigaction(SIGABRT, &sa, nullptr);
}

// ------------------------------------------------------------------ library decode of one body
struct Obs { bool accepted = false; Packet pkt; Bytes reencoded; };

template <class P> static Props R(const P& p) { return glue::to_ref(p); }

// b0 = first header byte; [first, first+len) = packet body. Fills obs (fields + library re-encoding).
static void lib_decode_body(uint8_t b0, citer first, uint32_t len, Obs& o, bool reencode) {
    uint8_t type = b0 >> 4; o.pkt = Packet(); o.pkt.type = type; o.pkt.flags = b0 & 15; o.accepted = false;
    citer it = first;
    switch (type) {
    case ref::CONNACK: { auto r = dec::decode_connack(len, it); if (!r) return; auto& [sp, rc, props] = *r;
        o.pkt.session_present = sp & 1; o.pkt.flags = 0; o.pkt.has_rc = true; o.pkt.rc = rc; o.pkt.props = R(props); o.accepted = true;
        if (sp > 1) o.pkt.client_id = "sp-byte>1";
        if (reencode) o.reencoded = enc::encode_connack(sp, rc, props); break; }
    case ref::PUBLISH: { auto r = dec::decode_publish(b0, len, it); if (!r) return; auto& [topic, pid, flags, props, payload] = *r;
        o.pkt.topic = topic; o.pkt.has_pid = pid.has_value(); o.pkt.pid = pid.value_or(0); o.pkt.flags = flags; o.pkt.props = R(props); o.pkt.payload = payload; o.accepted = true;
        if (reencode) o.reencoded = enc::encode_publish(pid.value_or(0), topic, payload, m5::qos_e((flags >> 1) & 3), m5::retain_e(flags & 1), m5::dup_e((flags >> 3) & 1), props); break; }
    case ref::PUBACK: case ref::PUBREC: case ref::PUBREL: case ref::PUBCOMP: {
        if (len < 2) return; auto pid = dec::decode_packet_id(it); if (!pid) return; uint32_t rest = len - 2;
        o.pkt.has_pid = true; o.pkt.pid = *pid; o.pkt.has_rc = true; o.pkt.has_props = true;
        if (type == ref::PUBACK) { auto r = dec::decode_puback(rest, it); if (!r) return; o.pkt.rc = std::get<0>(*r); o.pkt.props = R(std::get<1>(*r)); if (reencode) o.reencoded = enc::encode_puback(*pid, o.pkt.rc, std::get<1>(*r)); }
        if (type == ref::PUBREC) { auto r = dec::decode_pubrec(rest, it); if (!r) return; o.pkt.rc = std::get<0>(*r); o.pkt.props = R(std::get<1>(*r)); if (reencode) o.reencoded = enc::encode_pubrec(*pid, o.pkt.rc, std::get<1>(*r)); }
        if (type == ref::PUBREL) { auto r = dec::decode_pubrel(rest, it); if (!r) return; o.pkt.rc = std::get<0>(*r); o.pkt.props = R(std::get<1>(*r)); if (reencode) o.reencoded = enc::encode_pubrel(*pid, o.pkt.rc, std::get<1>(*r)); }
        if (type == ref::PUBCOMP) { auto r = dec::decode_pubcomp(rest, it); if (!r) return; o.pkt.rc = std::get<0>(*r); o.pkt.props = R(std::get<1>(*r)); if (reencode) o.reencoded = enc::encode_pubcomp(*pid, o.pkt.rc, std::get<1>(*r)); }
        o.accepted = true; break; }
    case ref::SUBACK: case ref::UNSUBACK: {
        if (len < 2) return; auto pid = dec::decode_packet_id(it); if (!pid) return; uint32_t rest = len - 2;
        o.pkt.has_pid = true; o.pkt.pid = *pid;
        if (type == ref::SUBACK) { auto r = dec::decode_suback(rest, it); if (!r) return; o.pkt.props = R(std::get<0>(*r)); o.pkt.rcs = std::get<1>(*r); if (reencode) o.reencoded = enc::encode_suback(*pid, std::get<1>(*r), std::get<0>(*r)); }
        else { auto r = dec::decode_unsuback(rest, it); if (!r) return; o.pkt.props = R(std::get<0>(*r)); o.pkt.rcs = std::get<1>(*r); if (reencode) o.reencoded = enc::encode_unsuback(*pid, std::get<1>(*r), std::get<0>(*r)); }
        o.accepted = true; break; }
    case ref::DISCONNECT: { auto r = dec::decode_disconnect(len, it); if (!r) return; o.pkt.has_rc = true; o.pkt.has_props = true; o.pkt.rc = std::get<0>(*r); o.pkt.props = R(std::get<1>(*r)); o.accepted = true;
        if (reencode) o.reencoded = enc::encode_disconnect(o.pkt.rc, std::get<1>(*r)); break; }
    case ref::AUTH: { auto r = dec::decode_auth(len, it); if (!r) return; o.pkt.has_rc = true; o.pkt.has_props = true; o.pkt.rc = std::get<0>(*r); o.pkt.props = R(std::get<1>(*r)); o.accepted = true;
        if (reencode) o.reencoded = enc::encode_auth(o.pkt.rc, std::get<1>(*r)); break; }
    default: return;
    }
}

// semantic equality of two packets of the same type (short forms normalised)
static bool same_contents(const Packet& a, const Packet& b, std::string& why) {
    auto rc = [](const Packet& p) { return p.has_rc ? p.rc : 0; };
    if (a.type != b.type) { why = "type"; return false; }
    if (a.type == ref::PUBLISH) {
        if ((a.flags & 15) != (b.flags & 15)) { why = "flags"; return false; }
        if (a.topic != b.topic) { why = "topic"; return false; }
        if (a.payload != b.payload) { why = "payload"; return false; }
        if (a.has_pid != b.has_pid || (a.has_pid && a.pid != b.pid)) { why = "packet id"; return false; }
    }
    if (a.type == ref::CONNACK && (a.session_present != b.session_present || a.rc != b.rc)) { why = "connack flags/rc"; return false; }
    if (a.type >= ref::PUBACK && a.type <= ref::PUBCOMP) { if (a.pid != b.pid) { why = "packet id"; return false; } if (rc(a) != rc(b)) { why = "reason code"; return false; } }
    if (a.type == ref::SUBACK || a.type == ref::UNSUBACK) { if (a.pid != b.pid) { why = "packet id"; return false; } if (a.rcs != b.rcs) { why = "reason codes"; return false; } }
    if (a.type == ref::DISCONNECT || a.type == ref::AUTH) { if (rc(a) != rc(b)) { why = "reason code"; return false; } }
    if (!ref::props_equal(a.props, b.props)) { why = "properties"; return false; }
    return true;
}

static std::string prop_sig(const Props& ps) { std::string s; std::set<int> ids; for (auto& p : ps) ids.insert(p.id); for (int id : ids) { char b[8]; snprintf(b, 8, "%02x.", id); s += b; } return s; }
static std::string replay_json(const char* mode, const Bytes& wire) { return std::string("{\"kind\":\"codec\",\"mode\":\"") + mode + "\",\"hex\":\"" + rep::hex(wire.size() > 280 ? wire.substr(0, 280) : wire) + "\",\"len\":" + std::to_string(wire.size()) + "}"; }

// ------------------------------------------------------------------ case generators (reference packets, broker -> client)
using Emit = std::function<void(const Packet&, const char* space)>;

static void with_prop_subsets(int ptype, Packet base, const Emit& emit, const char* space, int max_props_bits = 32) {
    auto ids = glue::allowed_ids(ptype); int n = int(ids.size()); if (n > max_props_bits) n = max_props_bits;
    for (uint32_t mask = 0; mask < (1u << n); ++mask) {
        Props ps; bool has_user = false, has_subid = false;
        for (int k = 0; k < n; ++k) if (mask & (1u << k)) { if (ids[k] == 0x26) has_user = true; else if (ids[k] == 0x0B) has_subid = true; else ps.push_back(glue::typical(ids[k])); }
        for (int u = has_user ? 1 : 0; u <= (has_user ? 2 : 0); ++u) for (int s = has_subid ? 1 : 0; s <= (has_subid ? 2 : 0); ++s) {
            Props q = ps; for (int i = 0; i < u; ++i) q.push_back(ref::ppair(i ? "k2" : "k", i ? "" : "v")); for (int i = 0; i < s; ++i) q.push_back(ref::pnum(0x0B, i ? 268435455u : 1u));
            Packet p = base; p.props = q; p.has_props = true; p.has_rc = true; emit(p, space);
        }
    }
    // all properties present, in reverse order (property order is free on the wire)
    { Props q; for (int k = n - 1; k >= 0; --k) q.push_back(glue::typical(ids[k])); Packet p = base; p.props = q; p.has_props = true; p.has_rc = true; emit(p, space); }
}
static void with_prop_boundaries(int ptype, Packet base, const Emit& emit, const char* space) {
    for (uint8_t id : glue::allowed_ids(ptype)) for (auto& v : glue::boundaries(id)) {
        Packet p = base; p.has_props = true; p.has_rc = true; p.props = {v}; emit(p, space);
        p.props = {ref::ppair("before", "x"), v, ref::ppair("after", "y")}; emit(p, space);
    }
}
static std::vector<uint8_t> listed_codes(int ptype, bool server_only) { std::vector<uint8_t> v; for (int c = 0; c < 256; ++c) if (server_only ? ref::rc_server_may_send(ptype, uint8_t(c)) : ref::rc_listed(ptype, uint8_t(c))) v.push_back(uint8_t(c)); return v; }

static void gen_broker_packets(int ptype, const Emit& emit, bool thorough) {
    Packet b; b.type = uint8_t(ptype);
    switch (ptype) {
    case ref::CONNACK:
        for (int v = 0; v < 3; ++v) { Packet p = b; p.session_present = (v == 1); p.rc = (v == 2) ? 0x87 : 0x00; with_prop_subsets(ptype, p, emit, "presence", thorough ? 32 : 32); }
        with_prop_boundaries(ptype, b, emit, "boundary");
        for (uint8_t c : listed_codes(ptype, true)) { Packet p = b; p.rc = c; p.has_props = true; emit(p, "reason-codes"); }
        break;
    case ref::PUBLISH: {
        struct F { int qos, dup, ret; }; std::vector<F> fl; for (int q = 0; q < 3; ++q) for (int d = 0; d < (q ? 2 : 1); ++d) for (int r = 0; r < 2; ++r) fl.push_back({q, d, r});
        for (auto& f : fl) for (size_t pl : {size_t(0), size_t(1), size_t(200)}) { Packet p = b; p.flags = uint8_t((f.dup << 3) | (f.qos << 1) | f.ret); p.pid = 0x0102; p.topic = "t/" + std::to_string(f.qos); p.payload = std::string(pl, 'p');
            with_prop_subsets(ptype, p, emit, "presence"); }
        { Packet p = b; p.flags = 2; p.pid = 1; p.topic = "a"; p.payload = "xyz"; with_prop_boundaries(ptype, p, emit, "boundary"); }
        for (uint16_t pid : {uint16_t(1), uint16_t(0x00FF), uint16_t(0x0100), uint16_t(0xFFFF)}) for (auto& topic : {std::string("a"), std::string(65535, 't'), std::string("\xC3\xBE/\xF0\x9F\x98\x80")}) {
            Packet p = b; p.flags = 4; p.pid = pid; p.topic = topic; p.payload = std::string("\x00\xff", 2); emit(p, "boundary"); }
        // Remaining Length boundaries via payload size
        for (uint32_t rl : {127u, 128u, 16383u, 16384u, 2097151u, 2097152u}) { if (rl > 20000 && !thorough && rl != 2097152u) continue; Packet p = b; p.flags = 2; p.pid = 7; p.topic = "rl";
            size_t fixed = 2 + 2 + 2 + 1; p.payload = std::string(rl - fixed, 'z'); emit(p, "remaining-length"); }
        { Packet p = b; p.flags = 0; p.topic = ""; p.props = {ref::pnum(0x23, 5)}; p.payload = "alias"; emit(p, "boundary"); }
        break; }
    case ref::PUBACK: case ref::PUBREC: case ref::PUBREL: case ref::PUBCOMP:
        for (uint16_t pid : {uint16_t(1), uint16_t(0x0100), uint16_t(0xFFFF)}) {
            { Packet p = b; p.pid = pid; p.has_rc = false; p.has_props = false; emit(p, "short-form"); }
            for (uint8_t c : listed_codes(ptype, false)) { Packet p = b; p.pid = pid; p.has_rc = true; p.rc = c; p.has_props = false; emit(p, "short-form"); p.has_props = true; emit(p, "reason-codes"); }
        }
        for (uint8_t c : listed_codes(ptype, false)) { Packet p = b; p.pid = 9; p.rc = c; with_prop_subsets(ptype, p, emit, "presence"); }
        { Packet p = b; p.pid = 9; p.rc = 0; with_prop_boundaries(ptype, p, emit, "boundary"); }
        break;
    case ref::SUBACK: case ref::UNSUBACK: {
        auto codes = listed_codes(ptype, false);
        for (int n = 1; n <= 3; ++n) { std::vector<int> idx(n, 0);
            for (;;) { Packet p = b; p.pid = 0x0203; for (int i = 0; i < n; ++i) p.rcs.push_back(codes[idx[i]]);
                if (n < 3 || thorough || (idx[0] + idx[1] + idx[2]) % 5 == 0) with_prop_subsets(ptype, p, emit, "presence");
                int k = n - 1; while (k >= 0 && ++idx[k] == int(codes.size())) idx[k--] = 0; if (k < 0) break; } }
        { Packet p = b; p.pid = 1; p.rcs = {0}; with_prop_boundaries(ptype, p, emit, "boundary"); }
        { Packet p = b; p.pid = 0xFFFF; p.rcs = std::vector<uint8_t>(300, codes.back()); emit(p, "boundary"); }
        break; }
    case ref::DISCONNECT: case ref::AUTH: {
        auto codes = listed_codes(ptype, true);
        { Packet p = b; p.has_rc = false; p.has_props = false; emit(p, "short-form"); }
        for (uint8_t c : codes) { Packet p = b; p.has_rc = true; p.rc = c; p.has_props = false; emit(p, "short-form"); with_prop_subsets(ptype, p, emit, "presence"); }
        { Packet p = b; p.rc = codes[0]; with_prop_boundaries(ptype, p, emit, "boundary"); }
        break; }
    }
}
static const int BROKER_TYPES[] = {ref::CONNACK, ref::PUBLISH, ref::PUBACK, ref::PUBREC, ref::PUBREL, ref::PUBCOMP, ref::SUBACK, ref::UNSUBACK, ref::DISCONNECT, ref::AUTH};

// splits wire into (b0, body offset, body len); returns false if header broken
static bool split_header(const Bytes& w, uint8_t& b0, size_t& off, uint32_t& len) {
    if (w.size() < 2) return false; b0 = uint8_t(w[0]); uint32_t v = 0; int sh = 0; size_t i = 1;
    for (;; ) { if (i >= w.size() || sh > 21) return false; uint8_t c = uint8_t(w[i++]); v |= uint32_t(c & 0x7F) << sh; sh += 7; if (!(c & 0x80)) break; }
    off = i; len = v; return w.size() - off == len;
}

// ------------------------------------------------------------------ C18
static void run_c18_type(int ptype, bool thorough) {
    uint64_t cases = 0, nontriv = 0; std::set<std::string> shapes;
    gen_broker_packets(ptype, [&](const Packet& p, const char* space) {
        cases++;
        Bytes wire = ref::encode(p);
        auto self = ref::decode(wire);
        if (self.st != ref::D_OK || self.consumed != wire.size()) { add_violation(std::string("HARNESS:ref-rejects-own-encoding:") + ref::ptype_name(ptype), self.why, replay_json("c18", wire)); return; }
        uint8_t b0; size_t off; uint32_t len; if (!split_header(wire, b0, off, len)) { add_violation("HARNESS:split", "header", replay_json("c18", wire)); return; }
        std::string body = wire.substr(off); Obs o;
        try { lib_decode_body(b0, body.cbegin(), len, o, true); }
        catch (const std::exception& e) { add_violation(std::string("C18:exception:") + ref::ptype_name(ptype), e.what(), replay_json("c18", wire)); return; }
        std::string shape = std::string(space) + ":" + prop_sig(p.props) + (p.has_rc ? "r" : "-") + (p.has_props ? "p" : "-") + std::to_string(p.flags);
        if (shapes.insert(shape).second) nontriv++;
        if (!o.accepted) { add_violation(std::string("C18:rejects-wellformed:") + ref::ptype_name(ptype) + ":" + space + ":" + (p.has_rc ? (p.has_props ? prop_sig(p.props) : "no-proplen") : "no-rc"),
            std::string("decoder rejected a well-formed ") + ref::ptype_name(ptype), replay_json("c18", wire)); return; }
        std::string why; Packet expect = self.pkt;
        if (!same_contents(expect, o.pkt, why) || !o.pkt.client_id.empty()) { add_violation(std::string("C18:wrong-field:") + ref::ptype_name(ptype) + ":" + why, "decoded value differs from the encoded one (" + why + ")", replay_json("c18", wire)); return; }
        auto re = ref::decode(o.reencoded);
        if (re.st != ref::D_OK || re.consumed != o.reencoded.size()) { add_violation(std::string("C18:reencode-malformed:") + ref::ptype_name(ptype) + ":" + re.why, "re-encoding the decoded packet is not well-formed: " + re.why, replay_json("c18", wire)); return; }
        if (!same_contents(expect, re.pkt, why)) { add_violation(std::string("C18:reencode-differs:") + ref::ptype_name(ptype) + ":" + why, "re-encoded packet differs in " + why, replay_json("c18", wire)); return; }
        // second decode of the re-encoding must reproduce the same again
        uint8_t b1; size_t off1; uint32_t len1; if (split_header(o.reencoded, b1, off1, len1)) { std::string body1 = o.reencoded.substr(off1); Obs o2; lib_decode_body(b1, body1.cbegin(), len1, o2, false);
            if (!o2.accepted || !same_contents(expect, o2.pkt, why)) add_violation(std::string("C18:redecode-differs:") + ref::ptype_name(ptype), "decode(encode(decode(x))) differs", replay_json("c18", wire)); }
        if (cases % 50021 == 7) add_sample("{\"type\":\"" + std::string(ref::ptype_name(ptype)) + "\",\"space\":\"" + space + "\",\"wire\":\"" + rep::hex(wire.substr(0, 60)) + "\",\"decoded\":" + rep::jstr(ref::describe(o.pkt)) + "}");
    }, thorough);
    __sync_fetch_and_add(&SH->cases, cases); __sync_fetch_and_add(&SH->calls, cases * 3); __sync_fetch_and_add(&SH->nontrivial, nontriv); __sync_fetch_and_add(&SH->accepted, cases);
}

// ------------------------------------------------------------------ C17
struct C17 { uint64_t cases = 0; std::set<std::string> shapes; };
static void c17_check(C17& st, const Bytes& wire, const Packet& expect, const char* space) {
    st.cases++;
    auto r = ref::decode(wire);
    std::string tn = ref::ptype_name(expect.type);
    st.shapes.insert(std::string(space) + ":" + prop_sig(expect.props) + prop_sig(expect.will_props) + std::to_string(expect.flags) + (expect.user ? "u" : "") + (expect.pass ? "p" : "") + (expect.has_will ? "w" : ""));
    if (r.st != ref::D_OK) { add_violation("C17:malformed:" + tn + ":" + r.why, "emitted " + tn + " does not parse: " + r.why, replay_json("c17", wire)); return; }
    if (r.consumed != wire.size()) { add_violation("C17:length:" + tn, "Remaining Length differs from body size", replay_json("c17", wire)); return; }
    const Packet& g = r.pkt; std::string why;
    auto neq = [&](const char* w) { why = w; };
    if (g.type != expect.type) neq("type");
    else if (g.flags != expect.flags) neq("header flags");
    else if (!ref::props_equal(g.props, expect.props)) neq("properties");
    else if (expect.has_pid && (!g.has_pid || g.pid != expect.pid)) neq("packet id");
    else switch (expect.type) {
        case ref::CONNECT: if (g.client_id != expect.client_id) neq("client id"); else if (g.user != expect.user) neq("user name"); else if (g.pass != expect.pass) neq("password");
            else if (g.keep_alive != expect.keep_alive) neq("keep alive"); else if (g.clean_start != expect.clean_start) neq("clean start"); else if (g.has_will != expect.has_will) neq("will flag");
            else if (g.has_will && (g.will_topic != expect.will_topic || g.will_payload != expect.will_payload || g.will_qos != expect.will_qos || g.will_retain != expect.will_retain)) neq("will");
            else if (g.has_will && !ref::props_equal(g.will_props, expect.will_props)) neq("will properties"); break;
        case ref::PUBLISH: if (g.topic != expect.topic) neq("topic"); else if (g.payload != expect.payload) neq("payload"); break;
        case ref::PUBACK: case ref::PUBREC: case ref::PUBREL: case ref::PUBCOMP: case ref::DISCONNECT: case ref::AUTH:
            if ((g.has_rc ? g.rc : 0) != expect.rc) neq("reason code"); break;
        case ref::SUBSCRIBE: case ref::UNSUBSCRIBE: if (g.filters != expect.filters) neq("topic filters/options"); break;
    }
    if (!why.empty()) add_violation("C17:wrong-field:" + tn + ":" + why, "decoded " + why + " differs from the value supplied", replay_json("c17", wire));
    if (st.cases % 20011 == 3) add_sample("{\"type\":\"" + tn + "\",\"space\":\"" + space + "\",\"wire\":\"" + rep::hex(wire.substr(0, 60)) + "\",\"decoded\":" + rep::jstr(ref::describe(g)) + "}");
}

template <class LibProps> static void subsets_of(int ptype, const std::vector<uint8_t>& exclude, const std::function<void(const LibProps&, const Props&)>& f) {
    auto ids = glue::allowed_ids(ptype); std::vector<uint8_t> use; for (auto id : ids) if (std::find(exclude.begin(), exclude.end(), id) == exclude.end()) use.push_back(id);
    int n = int(use.size());
    for (uint32_t mask = 0; mask < (1u << n); ++mask) {
        Props ps; bool user = false; for (int k = 0; k < n; ++k) if (mask & (1u << k)) { if (use[k] == 0x26) user = true; else ps.push_back(glue::typical(use[k])); }
        for (int u = user ? 1 : 0; u <= (user ? 2 : 0); ++u) { Props q = ps; for (int i = 0; i < u; ++i) q.push_back(ref::ppair(i ? "" : "key", i ? "v2" : "")); LibProps lp; glue::from_ref(lp, q); f(lp, q); }
    }
}
template <class LibProps> static void boundaries_of(int ptype, const std::vector<uint8_t>& exclude, const std::function<void(const LibProps&, const Props&)>& f) {
    for (uint8_t id : glue::allowed_ids(ptype)) { if (std::find(exclude.begin(), exclude.end(), id) != exclude.end()) continue;
        for (auto& v : glue::boundaries(id)) { Props q = {v}; LibProps lp; glue::from_ref(lp, q); f(lp, q); } }
}

static void run_c17_type(int ptype, bool thorough) {
    C17 st; Packet e; e.type = uint8_t(ptype);
    switch (ptype) {
    case ref::CONNECT: {
        std::vector<std::string> cids = {"", "cid", std::string(23, 'c'), std::string(65535, 'i')};
        auto call = [&](const std::string& cid, std::optional<std::string> u, std::optional<std::string> pw, uint16_t ka, const m5::connect_props& cp, const Props& cpr, const std::optional<m5::will>& w, const Packet& wexp, const char* space) {
            Packet x = wexp; x.type = ref::CONNECT; x.flags = 0; x.client_id = cid; x.user = u; x.pass = pw; x.keep_alive = ka; x.clean_start = false; x.props = cpr;
            std::optional<std::string_view> uv, pv; if (u) uv = *u; if (pw) pv = *pw;
            c17_check(st, enc::encode_connect(cid, uv, pv, ka, false, cp, w), x, space); };
        Packet nowill;
        // credentials x keep-alive x connect property subsets
        for (auto& cid : cids) for (int cr = 0; cr < 4; ++cr) for (uint16_t ka : {uint16_t(0), uint16_t(10), uint16_t(65535)}) {
            std::optional<std::string> u, pw; if (cr & 1) u = "user"; if (cr & 2) pw = std::string("p\x00w", 3);
            if (cid.size() > 100 && (cr != 3 || ka != 10)) continue;
            subsets_of<m5::connect_props>(ref::CONNECT, {}, [&](const m5::connect_props& cp, const Props& q) { call(cid, u, pw, ka, cp, q, std::nullopt, nowill, "presence"); });
        }
        boundaries_of<m5::connect_props>(ref::CONNECT, {}, [&](const m5::connect_props& cp, const Props& q) { call("c", std::nullopt, std::nullopt, 60, cp, q, std::nullopt, nowill, "boundary"); });
        // will: qos x retain x will property subsets
        for (int q = 0; q < 3; ++q) for (int r = 0; r < 2; ++r) subsets_of<m5::will_props>(ref::WILL, {}, [&](const m5::will_props& wp, const Props& wq) {
            for (auto& msg : {std::string(""), std::string("will\x00msg", 8)}) {
                m5::will w("will/topic", msg, m5::qos_e(q), m5::retain_e(r), wp); Packet x; x.has_will = true; x.will_props = wq; x.will_topic = "will/topic"; x.will_payload = msg; x.will_qos = uint8_t(q); x.will_retain = r;
                call("cid", std::string("u"), std::nullopt, 60, m5::connect_props{}, {}, w, x, "will-presence"); } });
        boundaries_of<m5::will_props>(ref::WILL, {}, [&](const m5::will_props& wp, const Props& wq) {
            m5::will w(std::string(65535, 'w'), std::string(70000, 'm').substr(0, 65535), m5::qos_e::exactly_once, m5::retain_e::yes, wp); Packet x; x.has_will = true; x.will_props = wq; x.will_topic = std::string(65535, 'w'); x.will_payload = std::string(65535, 'm'); x.will_qos = 2; x.will_retain = true;
            call("", std::nullopt, std::string("pw"), 1, m5::connect_props{}, {}, w, x, "will-boundary"); });
        break; }
    case ref::PUBLISH: {
        struct F { int qos, dup, ret; }; std::vector<F> fl; for (int q = 0; q < 3; ++q) for (int d = 0; d < (q ? 2 : 1); ++d) for (int r = 0; r < 2; ++r) fl.push_back({q, d, r});
        auto call = [&](const F& f, uint16_t pid, const std::string& topic, const std::string& payload, const m5::publish_props& pp, const Props& q, const char* space) {
            Packet x; x.type = ref::PUBLISH; x.flags = uint8_t((f.dup << 3) | (f.qos << 1) | f.ret); x.has_pid = f.qos > 0; x.pid = pid; x.topic = topic; x.payload = payload; x.props = q;
            // the client always encodes with dup_e::no and sets the DUP bit on the stored packet (control_packet::set_dup)
            Bytes w = enc::encode_publish(pid, topic, payload, m5::qos_e(f.qos), m5::retain_e(f.ret), m5::dup_e::no, pp); if (f.dup) w[0] = char(w[0] | 0x08);
            c17_check(st, w, x, space); };
        for (auto& f : fl) for (size_t pl : {size_t(0), size_t(1), size_t(300)})
            subsets_of<m5::publish_props>(ref::PUBLISH, {0x0B}, [&](const m5::publish_props& pp, const Props& q) { bool alias = false; for (auto& z : q) if (z.id == 0x23) alias = true;
                call(f, 0x1234, alias && pl == 0 ? "" : "top/ic", std::string(pl, 'x'), pp, q, "presence"); });
        boundaries_of<m5::publish_props>(ref::PUBLISH, {0x0B}, [&](const m5::publish_props& pp, const Props& q) { call(fl[2], 1, "t", "pl", pp, q, "boundary"); });
        for (uint16_t pid : {uint16_t(1), uint16_t(0xFF), uint16_t(0x100), uint16_t(0xFFFF)}) for (auto& t : {std::string("a"), std::string(65535, 't'), std::string("\xC3\xBE/\xF0\x9F\x98\x80")}) call(fl[4], pid, t, std::string("\x00\xff", 2), {}, {}, "boundary");
        for (uint32_t rl : {127u, 128u, 16383u, 16384u, 2097151u, 2097152u}) { if (rl > 20000 && !thorough && rl != 2097152u) continue; call(fl[2], 7, "rl", std::string(rl - 7, 'z'), {}, {}, "remaining-length"); }
        break; }
    case ref::PUBACK: case ref::PUBREC: case ref::PUBREL: case ref::PUBCOMP:
        for (uint32_t pid = 1; pid <= 0xFFFF; pid = (pid < 300 || thorough) ? pid + 1 : (pid * 2 > 0xFFFF && pid != 0xFFFF ? 0xFFFF : pid * 2)) {
            Packet x; x.type = uint8_t(ptype); x.flags = ptype == ref::PUBREL ? 2 : 0; x.has_pid = true; x.pid = uint16_t(pid); x.rc = 0;
            Bytes w = ptype == ref::PUBACK ? enc::encode_puback(uint16_t(pid), 0, m5::puback_props{}) : ptype == ref::PUBREC ? enc::encode_pubrec(uint16_t(pid), 0, m5::pubrec_props{}) :
                      ptype == ref::PUBREL ? enc::encode_pubrel(uint16_t(pid), 0, m5::pubrel_props{}) : enc::encode_pubcomp(uint16_t(pid), 0, m5::pubcomp_props{});
            c17_check(st, w, x, "client-ack"); if (pid == 0xFFFF) break; }
        break;
    case ref::SUBSCRIBE: {
        std::vector<m5::subscribe_options> opts; for (int q = 0; q < 3; ++q) for (int nl = 0; nl < 2; ++nl) for (int rap = 0; rap < 2; ++rap) for (int rh = 0; rh < 3; ++rh)
            opts.push_back({m5::qos_e(q), m5::no_local_e(nl), m5::retain_as_published_e(rap), m5::retain_handling_e(rh)});
        auto ob = [](const m5::subscribe_options& o) { return uint8_t((uint8_t(o.retain_handling) << 4) | (uint8_t(o.retain_as_published) << 3) | (uint8_t(o.no_local) << 2) | uint8_t(o.max_qos)); };
        std::vector<std::string> filters = {"a/b", "#", "+/x/#", "$share/grp/a/+", std::string(65535, 'f')};
        std::vector<std::pair<m5::subscribe_props, Props>> pvs;
        for (int sid : {0, 1, 127, 128, 16383, 16384, 2097151, 2097152, 268435455}) for (int u = 0; u < 3; ++u) { Props q; if (sid) q.push_back(ref::pnum(0x0B, uint32_t(sid))); for (int i = 0; i < u; ++i) q.push_back(ref::ppair(i ? "k2" : "k", "v")); m5::subscribe_props sp; glue::from_ref(sp, q); pvs.emplace_back(sp, q); }
        auto call = [&](uint16_t pid, const std::vector<m5::subscribe_topic>& ts, const m5::subscribe_props& sp, const Props& q, const char* space) {
            Packet x; x.type = ref::SUBSCRIBE; x.flags = 2; x.has_pid = true; x.pid = pid; x.props = q; for (auto& t : ts) x.filters.emplace_back(t.topic_filter, ob(t.sub_opts));
            c17_check(st, enc::encode_subscribe(pid, ts, sp), x, space); };
        for (auto& o : opts) for (auto& pv : pvs) for (size_t fi = 0; fi < 4; ++fi) {
            if (fi == 3 && o.no_local == m5::no_local_e::yes) continue; // no_local on a shared subscription is a protocol error the caller must avoid
            call(0x0A0B, {{filters[fi], o}}, pv.first, pv.second, "options"); }
        for (auto& o1 : opts) for (auto& o2 : opts) call(2, {{"x/1", o1}, {"x/2", o2}}, pvs[0].first, pvs[0].second, "two-topics");
        for (size_t i = 0; i < opts.size(); i += 5) call(0xFFFF, {{"x/1", opts[i]}, {filters[4], opts[(i + 7) % opts.size()]}, {"#", opts[(i + 11) % opts.size()]}}, pvs[4].first, pvs[4].second, "three-topics");
        break; }
    case ref::UNSUBSCRIBE: {
        std::vector<std::string> filters = {"a/b", "#", "+/x/#", "$share/grp/a/+", std::string(65535, 'f'), "\xC3\xBE"};
        for (int u = 0; u < 3; ++u) { Props q; for (int i = 0; i < u; ++i) q.push_back(ref::ppair(i ? "" : "k", i ? "v" : "")); m5::unsubscribe_props up; glue::from_ref(up, q);
            for (uint16_t pid : {uint16_t(1), uint16_t(0x100), uint16_t(0xFFFF)}) for (size_t a = 0; a < filters.size(); ++a) {
                for (int n = 1; n <= 3; ++n) { std::vector<std::string> ts; for (int i = 0; i < n; ++i) ts.push_back(filters[(a + i) % filters.size()]);
                    Packet x; x.type = ref::UNSUBSCRIBE; x.flags = 2; x.has_pid = true; x.pid = pid; x.props = q; for (auto& t : ts) x.filters.emplace_back(t, 0);
                    c17_check(st, enc::encode_unsubscribe(pid, ts, up), x, "topics"); } } }
        break; }
    case ref::PINGREQ: { Packet x; x.type = ref::PINGREQ; c17_check(st, enc::encode_pingreq(), x, "ping"); break; }
    case ref::DISCONNECT:
        for (uint8_t rc : {uint8_t(0x00), uint8_t(0x04), uint8_t(0x80), uint8_t(0x81), uint8_t(0x82), uint8_t(0x93), uint8_t(0x95)}) {
            subsets_of<m5::disconnect_props>(ref::DISCONNECT, {}, [&](const m5::disconnect_props& dp, const Props& q) { Packet x; x.type = ref::DISCONNECT; x.rc = rc; x.props = q; c17_check(st, enc::encode_disconnect(rc, dp), x, "presence"); });
            boundaries_of<m5::disconnect_props>(ref::DISCONNECT, {}, [&](const m5::disconnect_props& dp, const Props& q) { Packet x; x.type = ref::DISCONNECT; x.rc = rc; x.props = q; c17_check(st, enc::encode_disconnect(rc, dp), x, "boundary"); });
        }
        break;
    case ref::AUTH:
        for (uint8_t rc : {uint8_t(0x18), uint8_t(0x19)}) for (auto& method : {std::string("m"), std::string("SCRAM-SHA-1"), std::string(65535, 'M')}) for (auto& data : {std::string(""), std::string("\x00\xff\x7f", 3), std::string(65535, '\xAA')}) {
            m5::auth_props ap; ap[m5::prop::authentication_method] = method; ap[m5::prop::authentication_data] = data; Props q = {ref::pstr(0x15, method), ref::pstr(0x16, data)};
            Packet x; x.type = ref::AUTH; x.rc = rc; x.props = q; c17_check(st, enc::encode_auth(rc, ap), x, "auth"); }
        break;
    }
    __sync_fetch_and_add(&SH->cases, st.cases); __sync_fetch_and_add(&SH->calls, st.cases); __sync_fetch_and_add(&SH->nontrivial, st.shapes.size()); __sync_fetch_and_add(&SH->accepted, st.cases);
}
static const int CLIENT_TYPES[] = {ref::CONNECT, ref::PUBLISH, ref::PUBACK, ref::PUBREC, ref::PUBREL, ref::PUBCOMP, ref::SUBSCRIBE, ref::UNSUBSCRIBE, ref::PINGREQ, ref::DISCONNECT, ref::AUTH};

// ------------------------------------------------------------------ C19 (decoder level)
struct EP { const char* name; uint8_t b0; };
static const EP EPS[] = { {"connack", 0x20}, {"publish-q0", 0x30}, {"publish-q1", 0x32}, {"publish-q2-dup-ret", 0x3D}, {"publish-q3", 0x36}, {"puback", 0x40}, {"pubrec", 0x50},
    {"pubrel", 0x62}, {"pubcomp", 0x70}, {"suback", 0x90}, {"unsuback", 0xB0}, {"disconnect", 0xE0}, {"auth", 0xF0} };
static const int NEPS = sizeof(EPS) / sizeof(EPS[0]);

struct C19 { uint64_t calls = 0, accepted = 0, rejected = 0, lenient = 0; };

// One guarded decoder call; body placed end-aligned (over-reads fault) and start-aligned (under-reads fault).
static void c19_call(C19& st, const EP& ep, const char* data, size_t n, const char* origin) {
    for (int placement = 0; placement < 2; ++placement) {
        const char* p = placement == 0 ? place_end(data, n) : place_start(data, n);
        st.calls++;
        Obs o; volatile bool threw = false; std::string what;
        g_sig = 0;
        if (sigsetjmp(g_jmp, 1) == 0) {
            g_in_call = 1; alarm(5);
            try { lib_decode_body(ep.b0, citer(p), uint32_t(n), o, false); } catch (const std::exception& e) { threw = true; what = e.what(); } catch (...) { threw = true; what = "unknown"; }
            alarm(0); g_in_call = 0;
        } else {
            alarm(0); g_in_call = 0;
            Bytes w(data, n);
            const char* kind = g_sig == SIGALRM ? "hang" : g_sig == SIGABRT ? "abort" : (placement == 0 ? "read-past-end" : "read-before-start");
            add_violation(std::string("C19:decoder-") + kind + ":" + ep.name, std::string("decoder for ") + ep.name + " accessed memory outside the packet body / died (signal " + std::to_string(g_sig) + ", origin " + origin + ")",
                std::string("{\"kind\":\"codec\",\"mode\":\"c19\",\"entry\":\"") + ep.name + "\",\"b0\":" + std::to_string(ep.b0) + ",\"hex\":\"" + rep::hex(w.substr(0, 280)) + "\",\"len\":" + std::to_string(n) + "}");
            return;
        }
        if (threw) { Bytes w(data, n); add_violation(std::string("C19:decoder-exception:") + ep.name, "exception escaped the decoder: " + what,
            std::string("{\"kind\":\"codec\",\"mode\":\"c19\",\"entry\":\"") + ep.name + "\",\"b0\":" + std::to_string(ep.b0) + ",\"hex\":\"" + rep::hex(w.substr(0, 280)) + "\",\"len\":" + std::to_string(n) + "}"); return; }
        if (placement == 0) {
            if (o.accepted) st.accepted++; else st.rejected++;
            if (o.accepted && n < 4000) {
                // differential: what the decoder accepts must at least be parseable (structural mode of the reference:
                // framing, lengths, property ids/types, trailing bytes - no UTF-8 content / value-range rules, DESIGN 6.1)
                Bytes w; w.push_back(char(ep.b0)); ref::put_varint(w, uint32_t(n)); w.append(data, n);
                uint8_t t = ep.b0 >> 4; bool judged = t != ref::PUBLISH;   // PUBLISH bodies end in a verbatim payload; flags/QoS 3 are checked by the caller of the decoder
                ref::DResult r; { ref::StructuralScope sc; r = ref::decode(w); }
                if (r.st != ref::D_OK && judged && r.why != "reason code" && r.why != "fixed header flags" && r.why != "packet id") {
                    std::string why = r.why; for (auto& ch : why) if (ch == ' ' || ch == ':') ch = '-';
                    add_violation(std::string("C19:decoder-accepts-unparseable:") + ref::ptype_name(t) + ":" + why.substr(0, 40), std::string("decoder for ") + ep.name + " accepted a body the reference cannot parse (" + r.why + ", origin " + origin + ")",
                        std::string("{\"kind\":\"codec\",\"mode\":\"c19\",\"entry\":\"") + ep.name + "\",\"b0\":" + std::to_string(ep.b0) + ",\"hex\":\"" + rep::hex(w.substr(w.size() - n, 280)) + "\",\"len\":" + std::to_string(n) + "}");
                }
                if (r.st != ref::D_OK) st.lenient++;
            }
        }
    }
}

static void run_c19_item(int space, int slice, bool thorough) {
    C19 st; std::string s;
    static const unsigned char A[] = {0x00, 0x01, 0x02, 0x03, 0x05, 0x0B, 0x1F, 0x21, 0x26, 0x27, 0x7F, 0x80, 0xFF};
    const int NA = sizeof(A);
    switch (space) {
    case 1: // all byte strings <= 3 (slice = first byte, 256 = empty) through every entry point
        for (int e = 0; e < NEPS; ++e) {
            if (slice == 256) { c19_call(st, EPS[e], "", 0, "short"); continue; }
            s.assign(1, char(slice)); c19_call(st, EPS[e], s.data(), 1, "short");
            for (int b = 0; b < 256; ++b) { s.resize(1); s.push_back(char(b)); c19_call(st, EPS[e], s.data(), 2, "short");
                if (thorough || b < 0x30 || b == 0x7F || b == 0x80 || b == 0xFF) for (int c = 0; c < 256; ++c) { s.resize(2); s.push_back(char(c)); c19_call(st, EPS[e], s.data(), 3, "short"); } }
        }
        break;
    case 2: { // strings of length 4..6 over the 13-byte alphabet (slice = first symbol)
        int L = thorough ? 7 : 5; int e0 = 0;
        std::function<void(int)> rec = [&](int len) { if (len >= 4) for (int e = e0; e < NEPS; ++e) c19_call(st, EPS[e], s.data(), s.size(), "alphabet"); if (len == L) return; for (int k = 0; k < NA; ++k) { s.push_back(char(A[k])); rec(len + 1); s.pop_back(); } };
        s.assign(1, char(A[slice])); rec(1); break; }
    case 3: { // corpus: reference-encoded packets of BROKER_TYPES[slice]; every single-byte substitution, every truncation, declared lengths off by +-1..2
        int ptype = BROKER_TYPES[slice % 10]; int shard = slice / 10; uint64_t n = 0, m = 0;
        gen_broker_packets(ptype, [&](const Packet& p, const char*) {
            if (p.props.size() > 4 && (n++ % 97)) return;           // thin out the big presence products
            if (int(m++ % 16) != shard) return;
            Bytes wire = ref::encode(p); if (wire.size() > 400) return;
            uint8_t b0; size_t off; uint32_t len; if (!split_header(wire, b0, off, len)) return;
            EP ep{ref::ptype_name(ptype), b0}; std::string body = wire.substr(off);
            for (size_t t = 0; t <= body.size(); ++t) c19_call(st, ep, body.data(), t, "truncation");
            int step = thorough ? 1 : 5;
            for (size_t i = 0; i < body.size(); ++i) { char orig = body[i]; for (int v = (i * 7) % step; v < 256; v += step) { body[i] = char(v); c19_call(st, ep, body.data(), body.size(), "substitution"); }
                for (int v : {0x00, 0x01, 0x7F, 0x80, 0xFF, orig + 1, orig - 1}) { body[i] = char(v); c19_call(st, ep, body.data(), body.size(), "substitution"); } body[i] = orig; }
        }, false);
        break; }
    case 4: { // property length lies: valid prefix, then a property length varint claiming more than remains (all 1..4 byte varints boundaries)
        for (int e = 0; e < NEPS; ++e) {
            std::string pre; uint8_t t = EPS[e].b0 >> 4;
            if (t == ref::CONNACK) pre = std::string("\x00\x00", 2); else if (t == ref::PUBLISH) { pre = std::string("\x00\x01t", 3); if ((EPS[e].b0 >> 1) & 3) pre += std::string("\x00\x01", 2); }
            else if (t == ref::SUBACK || t == ref::UNSUBACK) pre = std::string("\x00\x01", 2); else if (t >= ref::PUBACK && t <= ref::PUBCOMP) pre = std::string("\x00\x01\x00", 3); else pre = std::string("\x00", 1);
            for (uint32_t claim : {1u, 2u, 5u, 127u, 128u, 300u, 16383u, 16384u, 65535u, 65536u, 2097151u, 2097152u, 268435455u}) for (auto& tail : {std::string(""), std::string("\x26", 1), std::string("\x26\x00\x01k\x00\x01v", 7), std::string("\x1f\xff\xff", 3), std::string("\x0b\xff\xff\xff\x7f", 5)}) {
                std::string b = pre; ref::put_varint(b, claim); b += tail; c19_call(st, EPS[e], b.data(), b.size(), "property-length"); }
            // string length lies inside a property
            for (uint16_t sl : {uint16_t(1), uint16_t(2), uint16_t(255), uint16_t(0x7FFF), uint16_t(0x8000), uint16_t(0xFFFF)}) { std::string b = pre; std::string prop = "\x1f"; ref::put_u16(prop, sl); ref::put_varint(b, uint32_t(prop.size())); b += prop; c19_call(st, EPS[e], b.data(), b.size(), "string-length");
                std::string b2 = pre; std::string prop2 = "\x26"; ref::put_u16(prop2, 1); prop2 += "k"; ref::put_u16(prop2, sl); ref::put_varint(b2, uint32_t(prop2.size())); b2 += prop2; c19_call(st, EPS[e], b2.data(), b2.size(), "string-length"); }
        }
        break; }
    }
    __sync_fetch_and_add(&SH->calls, st.calls); __sync_fetch_and_add(&SH->accepted, st.accepted); __sync_fetch_and_add(&SH->rejected, st.rejected); __sync_fetch_and_add(&SH->lenient, st.lenient);
}

// ------------------------------------------------------------------ main
int main(int argc, char** argv) {
    const char* out = rep::arg_value(argc, argv, "--out"); std::string mode = rep::arg_value(argc, argv, "--mode", "c18");
    bool thorough = rep::arg_flag(argc, argv, "--thorough"); int workers = atoi(rep::arg_value(argc, argv, "--workers", "16"));
    SH = (Shared*)mmap(nullptr, sizeof(Shared), PROT_READ | PROT_WRITE, MAP_SHARED | MAP_ANONYMOUS, -1, 0);
    arena_init();
    if (const char* hx = rep::arg_value(argc, argv, "--replay-hex")) {
        Bytes w = rep::unhex(hx);
        if (mode == "c19") { install_handlers(); EP ep{rep::arg_value(argc, argv, "--entry", "?"), uint8_t(atoi(rep::arg_value(argc, argv, "--b0", "0")))}; C19 st; c19_call(st, ep, w.data(), w.size(), "replay");
            printf("accepted=%llu rejected=%llu violations=%d\n", (unsigned long long)st.accepted, (unsigned long long)st.rejected, SH->nvio); for (int i = 0; i < SH->nvio; ++i) printf("  %s: %s\n", SH->vio[i].sig, SH->vio[i].detail); return SH->nvio ? 1 : 0; }
        auto r = ref::decode(w); printf("reference: st=%d %s %s\n", r.st, r.why.c_str(), ref::describe(r.pkt).c_str());
        uint8_t b0; size_t off; uint32_t len; if (split_header(w, b0, off, len)) { std::string body = w.substr(off); Obs o; lib_decode_body(b0, body.cbegin(), len, o, true); printf("library: accepted=%d %s\n  re-encoded=%s\n", o.accepted, ref::describe(o.pkt).c_str(), rep::hex(o.reencoded.substr(0, 80)).c_str()); }
        return 0;
    }
    std::vector<std::pair<int,int>> items;
    // the public property names must denote the identifiers of the MQTT 5 specification (table 2-4): application code reads
    // props[prop::name], so a name bound to another identifier is a wrong field even though encode/decode stay self-consistent
    if (mode == "c18" || mode == "c17") {
        namespace pp = boost::mqtt5::prop;
        struct N { const char* name; int lib; int spec; } names[] = {
            {"payload_format_indicator", pp::payload_format_indicator.value, 0x01}, {"message_expiry_interval", pp::message_expiry_interval.value, 0x02}, {"content_type", pp::content_type.value, 0x03},
            {"response_topic", pp::response_topic.value, 0x08}, {"correlation_data", pp::correlation_data.value, 0x09}, {"subscription_identifier", pp::subscription_identifier.value, 0x0B},
            {"session_expiry_interval", pp::session_expiry_interval.value, 0x11}, {"assigned_client_identifier", pp::assigned_client_identifier.value, 0x12}, {"server_keep_alive", pp::server_keep_alive.value, 0x13},
            {"authentication_method", pp::authentication_method.value, 0x15}, {"authentication_data", pp::authentication_data.value, 0x16}, {"request_problem_information", pp::request_problem_information.value, 0x17},
            {"will_delay_interval", pp::will_delay_interval.value, 0x18}, {"request_response_information", pp::request_response_information.value, 0x19}, {"response_information", pp::response_information.value, 0x1A},
            {"server_reference", pp::server_reference.value, 0x1C}, {"reason_string", pp::reason_string.value, 0x1F}, {"receive_maximum", pp::receive_maximum.value, 0x21}, {"topic_alias_maximum", pp::topic_alias_maximum.value, 0x22},
            {"topic_alias", pp::topic_alias.value, 0x23}, {"maximum_qos", pp::maximum_qos.value, 0x24}, {"retain_available", pp::retain_available.value, 0x25}, {"user_property", pp::user_property.value, 0x26},
            {"maximum_packet_size", pp::maximum_packet_size.value, 0x27}, {"wildcard_subscription_available", pp::wildcard_subscription_available.value, 0x28},
            {"subscription_identifier_available", pp::subscription_identifier_available.value, 0x29}, {"shared_subscription_available", pp::shared_subscription_available.value, 0x2A} };
        for (auto& n : names) { SH->cases++; if (n.lib != n.spec) { char d[160]; snprintf(d, sizeof d, "prop::%s denotes identifier 0x%02x, the specification assigns 0x%02x", n.name, n.lib, n.spec);
            add_violation(std::string(mode == "c18" ? "C18" : "C17") + ":wrong-field:property-name:" + n.name, d, "{\"kind\":\"codec\",\"mode\":\"" + mode + "\",\"hex\":\"\"}"); } }
    }
    if (mode == "c18") for (int i = 0; i < 10; ++i) items.emplace_back(0, BROKER_TYPES[i]);
    else if (mode == "c17") for (int i = 0; i < 11; ++i) items.emplace_back(0, CLIENT_TYPES[i]);
    else { for (int b = 0; b <= 256; ++b) items.emplace_back(1, b); for (int k = 0; k < 13; ++k) items.emplace_back(2, k); for (int k = 0; k < 160; ++k) items.emplace_back(3, k); items.emplace_back(4, 0); }
    std::vector<pid_t> pids;
    for (int w = 0; w < workers; ++w) { pid_t p = fork(); if (p == 0) {
        if (mode == "c19") install_handlers();
        for (;;) { int k = __sync_fetch_and_add(&SH->next, 1); if (k >= int(items.size())) break; struct timespec t0, t1; clock_gettime(CLOCK_MONOTONIC, &t0);
            if (mode == "c18") run_c18_type(items[k].second, thorough); else if (mode == "c17") run_c17_type(items[k].second, thorough); else run_c19_item(items[k].first, items[k].second, thorough);
            if (getenv("VERIF_DEBUG")) { clock_gettime(CLOCK_MONOTONIC, &t1); fprintf(stderr, "item %d/%d %.2fs\n", items[k].first, items[k].second, (t1.tv_sec - t0.tv_sec) + (t1.tv_nsec - t0.tv_nsec) / 1e9); } }
        _exit(0); } pids.push_back(p); }
    bool died = false; for (auto p : pids) { int st; waitpid(p, &st, 0); if (!WIFEXITED(st) || WEXITSTATUS(st)) died = true; }
    if (died) { fprintf(stderr, "codec_enum: a worker died abnormally (mode %s)\n", mode.c_str()); return 2; }
    rep::Report Rp;
    if (mode == "c18") Rp.rule = "reference-encoded well-formed CONNACK/PUBLISH/PUBACK/PUBREC/PUBREL/PUBCOMP/SUBACK/UNSUBACK/DISCONNECT/AUTH over presence space (every property subset x flag/short-form/reason-code variants) and boundary space (each property at each boundary value, string/binary lengths 0..65535, packet ids, Remaining Length 127/128/16383/16384/2097151/2097152); each decoded by the library, compared field by field, re-encoded by the library, strictly re-decoded by the reference and by the library. distinct_nontrivial = distinct (space, property set, form, flags) shapes";
    else if (mode == "c17") Rp.rule = "library encoders called with the argument shapes the client uses (CONNECT: ids x credentials x keep-alive x every CONNECT/Will property subset and boundary; PUBLISH: flags x payload sizes x every property subset/boundary x Remaining Length boundaries; client acks over packet ids; SUBSCRIBE: all 36 option combinations x list sizes x properties; UNSUBSCRIBE; PINGREQ; DISCONNECT; AUTH); output strictly decoded by the reference codec and compared with the supplied values. distinct_nontrivial = distinct shapes";
    else Rp.rule = "library decoders called on hostile bodies placed against PROT_NONE guard pages (end-aligned and start-aligned): all byte strings <= 3 (quick tier: 3-byte strings only with second byte in 00..2f,7f,80,ff), all strings of length 4..5 (thorough: ..7) over a 13-byte alphabet, every truncation and single-byte substitution of a reference-encoded corpus, property/string length lies; 13 entry points. evaluations = guarded decoder calls; distinct_nontrivial = calls the decoder accepted";
    Rp.evaluations = mode == "c19" ? SH->calls : SH->cases; Rp.states = SH->cases ? SH->cases : SH->calls; Rp.transitions = SH->calls; Rp.traces = SH->calls;
    Rp.distinct_nontrivial = mode == "c19" ? SH->accepted : SH->nontrivial;
    Rp.note_num("accepted", SH->accepted); Rp.note_num("rejected", SH->rejected);
    if (mode == "c19") Rp.note_num("lenient_acceptances_not_judged", SH->lenient);
    for (int i = 0; i < SH->nvio && i < 96; ++i) { Rp.violation(SH->vio[i].sig, SH->vio[i].detail, SH->vio[i].replay); Rp.vio_count[SH->vio[i].sig] = SH->vio[i].count; }
    Rp.max_samples = 8; for (int i = 0; i < SH->nsamples && i < 8; ++i) Rp.sample(SH->samples[i]);
    if (Rp.samples.empty()) Rp.sample("{\"entry\":\"connack\",\"hex\":\"00007f26\",\"note\":\"property length 127 with 1 byte left\"}");
    Rp.exhaustive = true;
    return Rp.write(out);
}
