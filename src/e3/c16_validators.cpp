// C16 (validator half): bounded-exhaustive comparison of the library's string validators with
// an independent recogniser (src/ref/mqtt_ref.hpp) written from Unicode Table 3-7 and MQTT 5
// 1.5.4 / 4.7 / 4.8.2.
// Spaces (each enumerated completely):
//   S1  every byte string of length <= 3                                  (16 843 009 strings)
//   S2  every string of length <= 5 over a 28-byte class alphabet         (17 850 625 strings)
//   S3  every code point U+0000..U+10FFFF in its canonical encoding, alone and embedded ("a"+c+"/b")
//   S4  every 4-byte sequence lead(F0..FF) x cont1(00..FF) x cont2,cont3 in class representatives
//   S5  "$share/" + every string of length <= 4 over the class alphabet   (shared-filter forms)
//   S6  sizes 0, 1, 65535, 65536
// Validators: validate_mqtt_utf8, validate_topic_name, validate_topic_alias_name,
//             validate_topic_filter, validate_shared_topic_filter (wildcards allowed / not),
//             is_valid_string_pair (via validate_mqtt_utf8 on both halves).
#include <boost/mqtt5/detail/topic_validation.hpp>
#include <boost/mqtt5/detail/utf8_mqtt.hpp>
#include "../ref/mqtt_ref.hpp"
#include "../common/report.hpp"
#include <sys/mman.h>
#include <sys/wait.h>
#include <unistd.h>
#include <functional>

namespace d = boost::mqtt5::detail;
using d::validation_result;

static const unsigned char ALPHA[28] = {0x00,0x1F,0x20,'#','+','/','$','a',0x7F,0x80,0x8F,0x90,0x9F,0xA0,0xB7,0xBE,0xBF,0xC0,0xC1,0xC2,0xDF,0xE0,0xED,0xEF,0xF0,0xF4,0xF5,0xFF};

struct Counters { uint64_t strings, calls, accepted, rejected, mism; };

struct Vio { char sig[96]; char detail[200]; char hexs[160]; };
struct Shared { volatile uint64_t strings, calls, accepted, rejected; volatile int nvio; Vio vio[64]; volatile uint64_t viocount[64]; };
static Shared* SH;

static void report(const char* validator, const char* dir, const char* cls, const std::string& s) {
    char sig[96]; snprintf(sig, sizeof sig, "C16:%s:%s:%s", validator, dir, cls);
    for (int i = 0; i < SH->nvio && i < 64; ++i) if (!strcmp(SH->vio[i].sig, sig)) { __sync_fetch_and_add(&SH->viocount[i], 1); return; }
    int k = __sync_fetch_and_add(&SH->nvio, 1);
    if (k >= 64) return;
    strncpy(SH->vio[k].sig, sig, 95);
    snprintf(SH->vio[k].detail, 200, "%s %s a string the reference recogniser %s (class: %s)", validator,
        !strcmp(dir, "false-accept") ? "accepts" : "rejects", !strcmp(dir, "false-accept") ? "rejects" : "accepts", cls);
    std::string h = rep::hex(s.substr(0, 70)); strncpy(SH->vio[k].hexs, h.c_str(), 159);
    SH->viocount[k] = 1;
}

// classify the first place where the string stops being well-formed MQTT UTF-8, to give
// violations a stable signature ("overlong", "surrogate", "bad-continuation", ">10FFFF", "noncharacter", ...)
static const char* classify(const std::string& s) {
    const unsigned char* p = (const unsigned char*)s.data(); size_t n = s.size(), i = 0;
    while (i < n) {
        uint32_t cp; int k = ref::utf8_decode_one(p + i, n - i, cp);
        if (k == 0) {
            unsigned char b = p[i];
            if (b >= 0x80 && b <= 0xBF) return "stray-continuation";
            if (b == 0xC0 || b == 0xC1) return "overlong-2";
            if (b >= 0xF5) return "lead-F5-FF";
            int need = b >= 0xF0 ? 4 : b >= 0xE0 ? 3 : 2;
            if (n - i < size_t(need)) { for (size_t j = 1; j < n - i; ++j) if (p[i + j] < 0x80 || p[i + j] > 0xBF) return "bad-continuation"; return "truncated"; }
            for (int j = 1; j < need; ++j) if (p[i + j] < 0x80 || p[i + j] > 0xBF) return "bad-continuation";
            if (b == 0xE0) return "overlong-3";
            if (b == 0xED) return "surrogate";
            if (b == 0xF0) return "overlong-4";
            if (b == 0xF4) return ">10FFFF";
            return "ill-formed";
        }
        if (!ref::mqtt_char_ok(cp)) {
            if (cp == 0) return "U+0000";
            if (cp <= 0x1F || (cp >= 0x7F && cp <= 0x9F)) return "control";
            return "noncharacter";
        }
        i += k;
    }
    // well-formed characters: classify by content for false rejects
    i = 0;
    while (i < n) { uint32_t cp; int k = ref::utf8_decode_one(p + i, n - i, cp);
        if ((cp & 0xFF) == 0xFE || (cp & 0xFF) == 0xFF) return "valid-char-low-byte-FE/FF";
        i += k; }
    return "structure";
}

static inline void check_all(const std::string& s, Counters& c) {
    c.strings++;
    struct { const char* name; bool lib; bool ref_; } t[6] = {
        {"validate_mqtt_utf8", d::validate_mqtt_utf8(s) == validation_result::valid, ref::mqtt_utf8_ok(s)},
        {"validate_topic_name", d::validate_topic_name(s) == validation_result::valid, ref::topic_name_ok(s)},
        {"validate_topic_alias_name", d::validate_topic_alias_name(s) == validation_result::valid, ref::topic_alias_name_ok(s)},
        {"validate_topic_filter", d::validate_topic_filter(s) == validation_result::valid, ref::topic_filter_ok(s)},
        {"validate_shared_topic_filter", d::validate_shared_topic_filter(s, true) == validation_result::valid, ref::shared_filter_ok(s, true)},
        {"validate_shared_topic_filter_nowild", d::validate_shared_topic_filter(s, false) == validation_result::valid, ref::shared_filter_ok(s, false)},
    };
    for (auto& v : t) {
        c.calls++;
        if (v.ref_) c.accepted++; else c.rejected++;
        if (v.lib != v.ref_) { c.mism++; report(v.name, v.lib ? "false-accept" : "false-reject", classify(s), s); }
    }
}

static void flush(Counters& c) {
    __sync_fetch_and_add(&SH->strings, c.strings); __sync_fetch_and_add(&SH->calls, c.calls);
    __sync_fetch_and_add(&SH->accepted, c.accepted); __sync_fetch_and_add(&SH->rejected, c.rejected);
}

static std::string enc_cp(uint32_t cp) {
    std::string s;
    if (cp < 0x80) s.push_back(char(cp));
    else if (cp < 0x800) { s.push_back(char(0xC0 | (cp >> 6))); s.push_back(char(0x80 | (cp & 0x3F))); }
    else if (cp < 0x10000) { s.push_back(char(0xE0 | (cp >> 12))); s.push_back(char(0x80 | ((cp >> 6) & 0x3F))); s.push_back(char(0x80 | (cp & 0x3F))); }
    else { s.push_back(char(0xF0 | (cp >> 18))); s.push_back(char(0x80 | ((cp >> 12) & 0x3F))); s.push_back(char(0x80 | ((cp >> 6) & 0x3F))); s.push_back(char(0x80 | (cp & 0x3F))); }
    return s;
}

// work items: (space, slice)
static void run_slice(int space, int slice, bool thorough) {
    Counters c{}; std::string s;
    switch (space) {
    case 1: // all byte strings <= 3; slice = first byte (or 256 for the shorter ones)
        if (slice == 256) { check_all("", c); break; }
        s.assign(1, char(slice)); check_all(s, c);
        for (int b = 0; b < 256; ++b) { s.assign(1, char(slice)); s.push_back(char(b)); check_all(s, c);
            for (int e = 0; e < 256; ++e) { s.resize(2); s.push_back(char(e)); check_all(s, c); } }
        break;
    case 2: { // length 4 and 5 over ALPHA (<=3 is covered by space 1, but lengths 1..3 over ALPHA repeated cheaply); slice = first symbol
        int L = thorough ? 6 : 5;
        std::function<void(int)> rec = [&](int len) { if (len >= 4) check_all(s, c); if (len == L) return; for (int k = 0; k < 28; ++k) { s.push_back(char(ALPHA[k])); rec(len + 1); s.pop_back(); } };
        s.assign(1, char(ALPHA[slice])); rec(1);
        break; }
    case 3: { // code points; slice = plane-ish chunk of 0x1000 values
        for (uint32_t cp = uint32_t(slice) * 0x1000; cp < uint32_t(slice + 1) * 0x1000 && cp <= 0x10FFFF; ++cp) {
            std::string e = enc_cp(cp); check_all(e, c); check_all("a" + e + "/b", c); check_all("$share/g/" + e, c); }
        break; }
    case 4: { // 4-byte sequences: lead = 0xF0 + slice (slice 0..15), c1 all, c2,c3 representatives
        static const unsigned char REP[] = {0x00,0x2F,0x7F,0x80,0x8F,0x90,0x9F,0xA0,0xBE,0xBF,0xC0,0xFF};
        for (int c1 = 0; c1 < 256; ++c1) for (unsigned char c2 : REP) for (unsigned char c3 : REP) {
            s.clear(); s.push_back(char(0xF0 + slice)); s.push_back(char(c1)); s.push_back(char(c2)); s.push_back(char(c3)); check_all(s, c); }
        break; }
    case 5: { // "$share/" + ALPHA^<=4 ; slice = first symbol (28 = empty)
        std::string pre = "$share/";
        if (slice == 28) { check_all(pre, c); check_all("$share", c); check_all("$shar/a/b", c); break; }
        std::function<void(int)> rec = [&](int len) { check_all(pre + s, c); if (len == 4) return; for (int k = 0; k < 28; ++k) { s.push_back(char(ALPHA[k])); rec(len + 1); s.pop_back(); } };
        s.assign(1, char(ALPHA[slice])); rec(1);
        break; }
    case 6: { // sizes
        for (size_t n : {size_t(0), size_t(1), size_t(65535), size_t(65536)}) {
            check_all(std::string(n, 'a'), c);
            if (n >= 2) { std::string f(n, 'a'); f[n - 2] = '/'; f[n - 1] = '#'; check_all(f, c);
                std::string g = "$share/g/" + std::string(n > 9 ? n - 9 : 0, 'a'); check_all(g, c); } }
        break; }
    }
    flush(c);
}

int main(int argc, char** argv) {
    const char* out = rep::arg_value(argc, argv, "--out");
    bool thorough = rep::arg_flag(argc, argv, "--thorough");
    int workers = atoi(rep::arg_value(argc, argv, "--workers", "16"));
    SH = (Shared*)mmap(nullptr, sizeof(Shared), PROT_READ | PROT_WRITE, MAP_SHARED | MAP_ANONYMOUS, -1, 0);
    if (const char* hx = rep::arg_value(argc, argv, "--replay-hex")) {
        std::string s = rep::unhex(hx); Counters c{}; check_all(s, c);
        printf("string %s: mismatches=%llu\n", hx, (unsigned long long)c.mism);
        for (int i = 0; i < SH->nvio; ++i) printf("  %s\n", SH->vio[i].sig);
        return c.mism ? 1 : 0;
    }
    std::vector<std::pair<int,int>> items;
    for (int b = 0; b <= 256; ++b) items.emplace_back(1, b);
    for (int k = 0; k < 28; ++k) items.emplace_back(2, k);
    for (int k = 0; k <= 0x10F; ++k) items.emplace_back(3, k);
    for (int k = 0; k < 16; ++k) items.emplace_back(4, k);
    for (int k = 0; k <= 28; ++k) items.emplace_back(5, k);
    items.emplace_back(6, 0);
    int* next = (int*)mmap(nullptr, 4096, PROT_READ | PROT_WRITE, MAP_SHARED | MAP_ANONYMOUS, -1, 0);
    std::vector<pid_t> pids;
    for (int w = 0; w < workers; ++w) { pid_t p = fork(); if (p == 0) { for (;;) { int k = __sync_fetch_and_add(next, 1); if (k >= int(items.size())) break; run_slice(items[k].first, items[k].second, thorough); } _exit(0); } pids.push_back(p); }
    bool died = false; for (auto p : pids) { int st; waitpid(p, &st, 0); if (!WIFEXITED(st) || WEXITSTATUS(st)) died = true; }
    if (died) { fprintf(stderr, "c16: worker died\n"); return 2; }
    rep::Report R;
    R.rule = "S1 all byte strings len<=3; S2 all strings len 4..5 (thorough: 6) over a 28-byte class alphabet; S3 every code point "
             "canonical, alone and embedded; S4 4-byte lead x cont1 x representative cont2,3; S5 $share/ + alphabet^<=4; S6 size bounds; "
             "each through 6 validators vs the reference recogniser. evaluations = validator calls; distinct_nontrivial = calls on "
             "strings the reference accepts (the well-formed side of the iff)";
    R.evaluations = SH->calls; R.distinct_nontrivial = SH->accepted; R.states = SH->strings; R.transitions = SH->calls; R.traces = SH->calls;
    R.note_num("strings", SH->strings); R.note_num("ref_accepts", SH->accepted); R.note_num("ref_rejects", SH->rejected);
    for (int i = 0; i < SH->nvio && i < 64; ++i) {
        R.violation(SH->vio[i].sig, SH->vio[i].detail, std::string("{\"kind\":\"c16\",\"hex\":\"") + SH->vio[i].hexs + "\"}");
        R.vio_count[SH->vio[i].sig] = SH->viocount[i];
    }
    R.sample("{\"hex\":\"2b2f61\",\"note\":\"'+/a' valid filter, invalid topic name\"}");
    R.sample("{\"hex\":\"c3be\",\"note\":\"U+00FE, well-formed\"}");
    R.sample("{\"hex\":\"eda080\",\"note\":\"surrogate U+D800, ill-formed\"}");
    R.sample("{\"hex\":\"2473686172652f672f23\",\"note\":\"$share/g/#\"}");
    R.exhaustive = true;
    return R.write(out);
}
