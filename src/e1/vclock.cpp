// Virtual time and DNS for the simnet engine.
// The executable's own definitions of std::chrono::steady_clock::now(), system_clock::now(),
// time(), getaddrinfo() and freeaddrinfo() pre-empt libstdc++ / libc at link time, so that
// asio::steady_timer, the library's reply time stamps, the back-off seed and the resolver all
// observe the harness-controlled world. No file of /repo is compiled differently for this.
#include "vclock.hpp"
#include <chrono>
#include <cstring>
#include <ctime>
#include <netdb.h>
#include <arpa/inet.h>
#include <netinet/in.h>
#include <cstdlib>
#include <string>
#include <atomic>
#include <condition_variable>
#include <mutex>

namespace vclock {
bool dns_wait_gate();
static std::atomic<int64_t> g_now_ns{BASE_NS};
int64_t now_ns() { return g_now_ns.load(std::memory_order_relaxed); }
void set_ns(int64_t t) { g_now_ns.store(t, std::memory_order_relaxed); }
void reset() { g_now_ns.store(BASE_NS, std::memory_order_relaxed); }

static std::atomic<uint32_t> g_dns_fail_mask{0};   // bit i set: host b<i> does not resolve
static std::atomic<uint32_t> g_dns_two_addr_mask{0}; // bit i set: host b<i> resolves to two addresses
static std::atomic<int> g_dns_lookups{0};
void dns_config(uint32_t fail_mask, uint32_t two_addr_mask) { g_dns_fail_mask = fail_mask; g_dns_two_addr_mask = two_addr_mask; g_dns_lookups = 0; }
int dns_lookups() { return g_dns_lookups.load(); }

static std::mutex g_gate_mx; static std::condition_variable g_gate_cv; static bool g_gate_on = false; static int g_gate_pending = 0, g_gate_tickets = 0; static bool g_gate_fail_next = false;
void dns_gate(bool on) { std::lock_guard<std::mutex> l(g_gate_mx); g_gate_on = on; g_gate_pending = 0; g_gate_tickets = 0; g_gate_fail_next = false; }
int dns_pending() { std::lock_guard<std::mutex> l(g_gate_mx); return g_gate_tickets > 0 ? 0 : g_gate_pending; }   // parked lookups with no release on its way
void dns_release(bool fail) { { std::lock_guard<std::mutex> l(g_gate_mx); g_gate_tickets++; g_gate_fail_next = fail; } g_gate_cv.notify_all(); }
void dns_release_all() { { std::lock_guard<std::mutex> l(g_gate_mx); g_gate_on = false; g_gate_tickets += 1000; } g_gate_cv.notify_all(); }
// called by getaddrinfo; returns true if this lookup has to fail
bool dns_wait_gate() {
    std::unique_lock<std::mutex> l(g_gate_mx);
    if (!g_gate_on) return false;
    g_gate_pending++;
    g_gate_cv.wait(l, [] { return g_gate_tickets > 0 || !g_gate_on; });
    if (g_gate_tickets > 0) g_gate_tickets--;
    g_gate_pending--;
    bool f = g_gate_fail_next; g_gate_fail_next = false; return f;
}
}

namespace std { namespace chrono { inline namespace _V2 {
steady_clock::time_point steady_clock::now() noexcept {
    return time_point(duration(vclock::now_ns()));
}
system_clock::time_point system_clock::now() noexcept {
    return time_point(duration(vclock::now_ns() + vclock::EPOCH_OFFSET_NS));
}
}}}

extern "C" time_t time(time_t* t) noexcept {
    time_t v = time_t((vclock::now_ns() + vclock::EPOCH_OFFSET_NS) / 1000000000LL);
    if (t) *t = v;
    return v;
}

// Host names b0..b9 map to 10.0.0.<10+i>; "b<i>" with the two-address bit also yields 10.0.1.<10+i>.
extern "C" int getaddrinfo(const char* node, const char* service, const struct addrinfo* hints, struct addrinfo** res) {
    (void)hints;
    vclock::g_dns_lookups++;
    if (vclock::dns_wait_gate()) return EAI_AGAIN;
    if (!node || node[0] != 'b' || node[1] < '0' || node[1] > '9' || node[2] != 0) return EAI_NONAME;
    int i = node[1] - '0';
    if (vclock::g_dns_fail_mask.load() & (1u << i)) return EAI_NONAME;
    int port = service ? atoi(service) : 1883;
    int n = (vclock::g_dns_two_addr_mask.load() & (1u << i)) ? 2 : 1;
    struct addrinfo* head = nullptr; struct addrinfo** tail = &head;
    for (int k = 0; k < n; ++k) {
        auto* ai = (struct addrinfo*)calloc(1, sizeof(struct addrinfo));
        auto* sa = (struct sockaddr_in*)calloc(1, sizeof(struct sockaddr_in));
        sa->sin_family = AF_INET; sa->sin_port = htons(uint16_t(port));
        sa->sin_addr.s_addr = htonl((10u << 24) | (uint32_t(k) << 8) | uint32_t(10 + i));
        ai->ai_family = AF_INET; ai->ai_socktype = SOCK_STREAM; ai->ai_protocol = IPPROTO_TCP;
        ai->ai_addrlen = sizeof(struct sockaddr_in); ai->ai_addr = (struct sockaddr*)sa;
        *tail = ai; tail = &ai->ai_next;
    }
    *res = head;
    return 0;
}
extern "C" void freeaddrinfo(struct addrinfo* ai) {
    while (ai) { auto* n = ai->ai_next; free(ai->ai_addr); free(ai); ai = n; }
}
