// mqtt_client over the generic simulated stream: shutdown takes the TLS/WebSocket-style path
// (swap the stream out, async_shutdown under the connection lock).
#define STREAM_T sim::sim_stream
#include "client_impl.inc"
namespace cli { std::unique_ptr<IClient> make_client_generic(asio::io_context& ioc) { return std::make_unique<Impl>(ioc); } }
