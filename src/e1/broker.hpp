// Reference MQTT 5 broker model for the simnet engine (from the specification; shares the strict
// reference codec with E3). It is an oracle and an environment, never a substitute for the client.
#pragma once
#include "sim.hpp"
#include "../ref/mqtt_ref.hpp"
#include <map>
#include <set>

namespace bkr {

struct WireEvt {
    int seq = 0; int conn = -1; bool c2b = true; int64_t t = 0;
    ref::Packet pkt; std::string raw; bool malformed = false; std::string why;
    bool raw_hostile = false; bool incomplete = false;   // incomplete: the bytes are only a prefix of a packet (the reference wants more)
    uint64_t b2c_end = 0;      // broker->client events: cumulative number of bytes emitted on this connection up to the end of this packet
};

struct OutMsg {            // broker -> client application message
    int tag = 0; uint8_t qos = 0; std::string topic, payload; ref::Props props; bool retain = false;
    uint16_t pid = 0;      // assigned when first sent
    enum St { QUEUED, SENT, PUBREC_RCVD, DONE } st = QUEUED;
    int transmissions = 0; int acks_seen = 0;
    std::vector<int> sent_on_conns;
};

struct Session {
    std::string client_id;
    std::set<uint16_t> inbound_qos2;          // PUBREC sent, PUBREL not yet seen
    std::map<std::string, uint8_t> subs;
    std::vector<OutMsg> out;                  // in send order
    uint16_t next_pid = 1;
};

struct ConnState {
    bool got_connect = false, connack_sent = false, handshake_ok = false, disconnected = false, closed = false;
    std::string client_id;
    int behaviour = 0;                        // see Behaviour
    std::string held;                         // replies held back (delay-reply)
    std::set<uint16_t> inflight;              // client->broker QoS>0 exchanges not yet completed by the broker
    int max_inflight = 0;
    int receive_maximum = 65535;              // announced in this connection's CONNACK
    int auth_rounds_left = 0;
    int n_client_packets = 0;
    int64_t connack_t = -1;
    bool session_present_sent = false;
    ref::Props connack_props_sent;
    uint64_t emitted = 0;
};

enum Behaviour { B_NORMAL = 0, B_NOREPLY = 1, B_DELAY = 2 };
enum HsVariant { HS_OK = 0, HS_RC = 1, HS_MALFORMED = 2, HS_SILENT = 3, HS_CLOSE = 4 };

struct Hostile {            // C19: replace the reply to the n-th client packet of a given type by raw bytes
    bool enabled = false; int on_type = 0; int nth = 1; std::string raw; bool also_normal_reply = false; int seen = 0; bool fired = false;
};

struct Config {
    ref::Props connack_props;                 // capabilities etc. announced in every successful CONNACK
    std::vector<ref::Props> connack_props_script;   // if set: properties of the n-th successful CONNACK (then connack_props)
    std::vector<int> sp_policy;               // per successful handshake index: -1/absent = natural, 0 = session lost
    uint8_t puback_rc = 0, pubrec_rc = 0, pubcomp_rc = 0;
    bool ack_props = false;                   // attach reason string + user property to acks
    std::vector<std::vector<uint8_t>> suback_script, unsuback_script;   // literal reason codes for the n-th (UN)SUBSCRIBE seen
    bool pingresp = true; bool hold_publish_acks = false; int hold_acks_first_conns = 0;   // > 0: only the first N connections are slow   // never acknowledge client PUBLISHes (slow broker)
    std::string auth_method; int auth_rounds = 0; bool auth_wrong_method = false;
    std::vector<uint8_t> connack_rc_script;   // reason code for the n-th CONNECT (0 = success) - scenario-driven refusals
    Hostile hostile;
};

class Broker : public sim::BrokerHooks {
public:
    sim::Net& net; Config cfg;
    std::vector<WireEvt> wire; std::vector<ConnState> cs; std::map<std::string, Session> sessions;
    int handshakes_ok = 0, connects_seen = 0, subs_seen = 0, unsubs_seen = 0;
    std::vector<OutMsg> lost_out;                     // outbound messages of sessions the broker discarded (sp=0)
    std::vector<std::string> protocol_violations;   // things the client must never do (C17 wire monitor etc.)
    bool starving_connack = false;                    // a hostile but parseable CONNACK announced Receive Maximum 0
    int next_hs_variant = HS_OK;                      // set by the explorer before delivering a CONNECT

    Broker(sim::Net& n, Config c) : net(n), cfg(std::move(c)) { net.broker = this; }
    void on_open(int conn) override;
    void on_bytes(int conn) override;
    void on_client_close(int conn) override;
    bool handshake_done(int conn) override { return conn < int(cs.size()) && cs[conn].handshake_ok; }

    void set_behaviour(int conn, int b) { cs[conn].behaviour = b; }
    bool has_held(int conn) const { return conn < int(cs.size()) && !cs[conn].held.empty(); }
    void release_held(int conn);
    void close_conn(int conn);                // broker closes (EOF after queued bytes)
    int live_conn() const;                    // connection with a completed handshake still open, or -1
    // broker as sender
    void push(int tag, uint8_t qos, const std::string& topic, const std::string& payload, const ref::Props& props);
    void emit(int conn, const ref::Packet& p);
    void emit_raw(int conn, const std::string& bytes, bool hostile);
    Session* session_of(int conn) { auto it = sessions.find(cs[conn].client_id); return it == sessions.end() ? nullptr : &it->second; }
private:
    void handle(int conn, const ref::Packet& p, const std::string& raw);
    void send_out(int conn, Session& s, OutMsg& m, bool dup);
    void violation(const std::string& v) { protocol_violations.push_back(v); }
    void finish_handshake(int conn, const ref::Packet& connect);
    std::map<int, ref::Packet> pending_connect_;
};

} // namespace bkr
