#pragma once
#include "world.hpp"

namespace e1 {

enum Mon : uint32_t {
    M_C01 = 1u << 1, M_C02 = 1u << 2, M_C03 = 1u << 3, M_C04 = 1u << 4, M_C05 = 1u << 5, M_C06 = 1u << 6, M_C07 = 1u << 7, M_C08 = 1u << 8,
    M_C09 = 1u << 9, M_C10 = 1u << 10, M_C11 = 1u << 11, M_C12 = 1u << 12, M_C13 = 1u << 13, M_C14 = 1u << 14, M_C15 = 1u << 15, M_C16 = 1u << 16,
    M_C17 = 1u << 17, M_C19 = 1u << 19, M_C20 = 1u << 20,
};

struct Scenario {
    std::string name;
    int flavour = 0;                       // 0 generic stream, 1 tcp-like stream
    std::string hosts = "b0"; uint16_t port = 1883;
    uint16_t keep_alive = 0; std::string client_id = "cid", user, pass;
    cli::WillSpec will; ref::Props connect_props; cli::AuthSpec auth;
    bkr::Config broker;
    uint32_t dns_fail_mask = 0, dns_two_mask = 0;
    bool gate_dns = false;                 // every DNS lookup is a parked environment event (resolve-done | resolve-fail | time passes first)
    std::vector<Action> script;
    std::map<int, std::vector<Action>> on_complete;     // op index -> actions performed inside its completion handler
    std::optional<Action> inject;                       // injected at any choice point (F_INJECT)
    bool may_end_early = false;                         // the script is not expected to run to its end even undisturbed (vacuity guard off)
    size_t faults_from_pos = 0;                         // no fault / reordering is offered before the script has reached this position
    std::vector<Action> inject_more;                    // further actions performed in the same step as the injection (no handler runs in between)
    std::vector<Action> after_inject;                   // actions appended to the script once the injection happened
    uint32_t fam = 0; int D = 1;
    uint32_t monitors = 0;
    bool epilogue_cancel = true;
    int64_t horizon_s = 300; int max_steps = 600;
    uint32_t initial_last_serial = 0;
    int64_t idle_tail_s = 0;               // after the script: keep advancing time for this long (C09 silence, C12)
    bool expect_all_success = true;        // C02-style liveness oracle applies
    std::string expect_note;
    int rc_type = 0, rc_code = -1;         // C20 client-level sweep: acknowledgement type and reason byte under test
    // name without a trailing numeric id: signatures are keyed on the scenario family
    std::string family() const { size_t p = name.find_last_of('-'); if (p != std::string::npos && p + 1 < name.size() && name.find_first_not_of("0123456789", p + 1) == std::string::npos) return name.substr(0, p); return name; }
};

// scenario sets per property; tier 0 quick, 1 thorough
std::vector<Scenario> scenarios_for(const std::string& prop, int tier);

// monitors (pure functions of the finished world)
void run_monitors(World& w);

} // namespace e1
