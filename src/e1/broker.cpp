#include "broker.hpp"
#include "vclock.hpp"

namespace bkr {

static ref::Props ack_props_of(const Config& c, const char* what) {
    if (!c.ack_props) return {};
    static thread_local int seq = 0; static thread_local const Config* last = nullptr; if (last != &c) { last = &c; seq = 0; }
    ++seq;   // every acknowledgement is distinguishable, so a handler fed from a stale one is noticed
    return {ref::pstr(0x1F, std::string("reason-") + what + "-" + std::to_string(seq)), ref::ppair("ak", what)};
}

void Broker::on_open(int conn) { if (int(cs.size()) <= conn) cs.resize(conn + 1); }
void Broker::on_client_close(int conn) { if (int(cs.size()) <= conn) cs.resize(conn + 1); cs[conn].closed = true; }

int Broker::live_conn() const {
    for (int i = int(cs.size()) - 1; i >= 0; --i) if (cs[i].handshake_ok && !cs[i].closed && !net.conns[i].dead && !net.conns[i].broker_closed) return i;
    return -1;
}

void Broker::close_conn(int conn) {
    cs[conn].closed = true; net.conns[conn].broker_closed = true;
    net.note("broker closes conn " + std::to_string(conn));
}

void Broker::emit_raw(int conn, const std::string& bytes, bool hostile) {
    ConnState& c = cs[conn];
    if (c.behaviour == B_NOREPLY) return;
    if (c.behaviour == B_DELAY) { c.held += bytes; return; }
    if (net.conns[conn].dead || net.conns[conn].client_closed) return;
    net.conns[conn].b2c += bytes;
    // log packet(s)
    size_t off = 0;
    while (off < bytes.size()) {
        WireEvt e; e.seq = int(wire.size()); e.conn = conn; e.c2b = false; e.t = vclock::now_ns(); e.raw_hostile = false;
        ref::StructuralScope structural;   // what the broker itself emits is judged structurally (C19 interpretation note in DESIGN.md)
        auto r = ref::decode((const unsigned char*)bytes.data() + off, bytes.size() - off);
        if (r.st == ref::D_OK) { e.pkt = r.pkt; e.raw = bytes.substr(off, r.consumed); off += r.consumed; }
        else { e.malformed = true; e.incomplete = (r.st == ref::D_INCOMPLETE); e.raw_hostile = hostile; e.why = r.why; e.raw = bytes.substr(off); off = bytes.size(); }
        c.emitted += e.raw.size(); e.b2c_end = c.emitted;
        // completion of client->broker exchanges (Receive Maximum accounting happens when the ack is really sent)
        if (!e.malformed) {
            if (e.pkt.type == ref::PUBACK || e.pkt.type == ref::PUBCOMP) c.inflight.erase(e.pkt.pid);
            if (e.pkt.type == ref::PUBREC && e.pkt.has_rc && e.pkt.rc >= 0x80) c.inflight.erase(e.pkt.pid);
        }
        wire.push_back(std::move(e));
    }
}
void Broker::emit(int conn, const ref::Packet& p) { emit_raw(conn, ref::encode(p), false); }

void Broker::release_held(int conn) {
    ConnState& c = cs[conn]; std::string h; h.swap(c.held); c.behaviour = B_NORMAL; emit_raw(conn, h, false);
}

void Broker::on_bytes(int conn) {
    if (int(cs.size()) <= conn) cs.resize(conn + 1);
    for (;;) {
        sim::Conn& c = net.conns[conn];
        if (cs[conn].closed && cs[conn].disconnected) { c.c2b.clear(); return; }
        if (c.c2b.empty()) return;
        auto r = ref::decode((const unsigned char*)c.c2b.data(), c.c2b.size());
        if (r.st == ref::D_INCOMPLETE) return;
        WireEvt e; e.seq = int(wire.size()); e.conn = conn; e.c2b = true; e.t = vclock::now_ns();
        if (r.st == ref::D_MALFORMED) {
            e.malformed = true; e.why = r.why; e.raw = c.c2b; wire.push_back(e);
            violation("C17: client wrote a packet the strict reference decoder rejects (" + r.why + "): " + ref::hex(c.c2b, 40));
            c.c2b.clear(); close_conn(conn); return;
        }
        e.pkt = r.pkt; e.raw = c.c2b.substr(0, r.consumed); c.c2b.erase(0, r.consumed);
        wire.push_back(e);
        cs[conn].n_client_packets++;
        if (cs[conn].closed) continue;            // bytes after the broker closed are logged, not answered
        handle(conn, wire.back().pkt, wire.back().raw);
    }
}

void Broker::finish_handshake(int conn, const ref::Packet& p) {
    ConnState& c = cs[conn];
    std::string cid = p.client_id; ref::Props props = handshakes_ok < int(cfg.connack_props_script.size()) ? cfg.connack_props_script[handshakes_ok] : cfg.connack_props;
    if (cid.empty()) { cid = "auto-" + std::to_string(conn); props.push_back(ref::pstr(0x12, cid)); }
    c.client_id = cid;
    bool natural = sessions.count(cid) > 0 && !p.clean_start;
    int pol = handshakes_ok < int(cfg.sp_policy.size()) ? cfg.sp_policy[handshakes_ok] : -1;
    bool sp = natural && pol != 0;
    if (!sp) { auto it = sessions.find(cid); if (it != sessions.end()) { for (auto& m : it->second.out) lost_out.push_back(m); sessions.erase(it); } }
    Session& s = sessions[cid]; s.client_id = cid;
    if (!cfg.auth_method.empty()) { bool has = false; for (auto& q : p.props) if (q.id == 0x15) has = true;
        if (has) { props.push_back(ref::pstr(0x15, cfg.auth_wrong_method ? cfg.auth_method + "-x" : cfg.auth_method)); props.push_back(ref::pstr(0x16, "final")); } }
    ref::Packet ca; ca.type = ref::CONNACK; ca.session_present = sp; ca.rc = 0; ca.has_rc = true; ca.props = props;
    c.receive_maximum = 65535; for (auto& q : props) if (q.id == 0x21) c.receive_maximum = int(q.num);
    c.connack_sent = true; c.handshake_ok = true; c.connack_t = vclock::now_ns(); c.session_present_sent = sp; c.connack_props_sent = props;
    handshakes_ok++;
    emit(conn, ca);
    if (sp) {   // MQTT 4.4: resend unacknowledged PUBLISH (DUP=1) and PUBREL
        for (auto& m : s.out) {
            if (m.st == OutMsg::SENT && m.qos > 0) send_out(conn, s, m, true);
            else if (m.st == OutMsg::PUBREC_RCVD) { ref::Packet r; r.type = ref::PUBREL; r.pid = m.pid; r.has_pid = true; r.has_rc = false; r.has_props = false; emit(conn, r); }
        }
    }
    for (auto& m : s.out) if (m.st == OutMsg::QUEUED) send_out(conn, s, m, false);
}

void Broker::send_out(int conn, Session& s, OutMsg& m, bool dup) {
    if (m.qos > 0 && m.pid == 0) {   // lowest identifier not held by an unsettled exchange (brokers reuse identifiers as soon as they are free)
        for (uint16_t cand = 1; cand != 0; ++cand) { bool used = false; for (auto& o : s.out) if (&o != &m && o.pid == cand && o.qos > 0 && o.st != OutMsg::DONE && o.st != OutMsg::QUEUED) used = true; if (!used) { m.pid = cand; break; } } }
    ref::Packet p; p.type = ref::PUBLISH; p.flags = uint8_t((dup ? 8 : 0) | (m.qos << 1) | (m.retain ? 1 : 0)); p.pid = m.pid; p.has_pid = m.qos > 0;
    p.topic = m.topic; p.payload = m.payload; p.props = m.props;
    m.transmissions++; m.sent_on_conns.push_back(conn);
    m.st = m.qos == 0 ? OutMsg::DONE : OutMsg::SENT;
    emit(conn, p);
}

void Broker::push(int tag, uint8_t qos, const std::string& topic, const std::string& payload, const ref::Props& props) {
    int conn = live_conn();
    std::string cid = conn >= 0 ? cs[conn].client_id : (sessions.empty() ? std::string("cid") : sessions.begin()->first);
    Session& s = sessions[cid]; s.client_id = cid;
    OutMsg m; m.tag = tag; m.qos = qos; m.topic = topic; m.payload = payload; m.props = props;
    s.out.push_back(m);
    if (conn >= 0) send_out(conn, s, s.out.back(), false);
}

void Broker::handle(int conn, const ref::Packet& p, const std::string& raw) {
    ConnState& c = cs[conn];
    // hostile replacement of the reply (C19 client level)
    bool hostile_now = false;
    if (cfg.hostile.enabled && !cfg.hostile.fired && p.type == cfg.hostile.on_type && ++cfg.hostile.seen == cfg.hostile.nth) { hostile_now = true; cfg.hostile.fired = true; }
    if (!c.got_connect) {
        if (p.type != ref::CONNECT) { violation("C10: first packet on connection " + std::to_string(conn) + " is " + ref::ptype_name(p.type) + ", not CONNECT"); }
    }
    if (p.type == ref::CONNECT) {
        if (c.got_connect) { violation("C10: second CONNECT on connection " + std::to_string(conn)); return; }
        c.got_connect = true; connects_seen++;
        if (hostile_now) {
            // bytes the strict reference decoder accepts as a successful CONNACK are a real handshake, whatever produced them
            ref::StructuralScope structural;
            auto hr = ref::decode(cfg.hostile.raw);
            if (hr.st == ref::D_OK && hr.pkt.type == ref::CONNACK && hr.pkt.rc == 0) {
                std::string cid = p.client_id.empty() ? "auto-" + std::to_string(conn) : p.client_id; c.client_id = cid;
                if (!hr.pkt.session_present) sessions.erase(cid); Session& s = sessions[cid]; s.client_id = cid;
                c.receive_maximum = 65535; for (auto& q : hr.pkt.props) if (q.id == 0x21) c.receive_maximum = int(q.num);
                c.connack_sent = true; c.handshake_ok = true; c.connack_t = vclock::now_ns(); c.session_present_sent = hr.pkt.session_present; c.connack_props_sent = hr.pkt.props; handshakes_ok++;
                if (c.receive_maximum == 0) starving_connack = true;   // Receive Maximum 0 is a Protocol Error of the broker: nothing can be sent on this connection
            }
            emit_raw(conn, cfg.hostile.raw, true); if (!cfg.hostile.also_normal_reply) return; }
        int v = next_hs_variant; next_hs_variant = HS_OK;
        uint8_t scripted_rc = connects_seen - 1 < int(cfg.connack_rc_script.size()) ? cfg.connack_rc_script[connects_seen - 1] : 0;
        if (v == HS_RC || scripted_rc) { ref::Packet ca; ca.type = ref::CONNACK; ca.rc = scripted_rc ? scripted_rc : 0x88; ca.has_rc = true; ca.props = cfg.connack_props; emit(conn, ca); close_conn(conn); return; }
        if (v == HS_MALFORMED) { emit_raw(conn, std::string("\x20\x03\x00\xFF\x00", 5), true); return; }
        if (v == HS_SILENT) { c.behaviour = B_NOREPLY; return; }
        if (v == HS_CLOSE) { close_conn(conn); return; }
        bool has_method = false; for (auto& q : p.props) if (q.id == 0x15) has_method = true;
        if (has_method && !cfg.auth_method.empty() && cfg.auth_rounds > 0) {
            c.auth_rounds_left = cfg.auth_rounds; c.client_id = p.client_id;
            ref::Packet a; a.type = ref::AUTH; a.has_rc = true; a.rc = 0x18; a.props = {ref::pstr(0x15, cfg.auth_method), ref::pstr(0x16, "chal" + std::to_string(c.auth_rounds_left))};
            // remember the CONNECT for finishing later
            pending_connect_[conn] = p; emit(conn, a); return;
        }
        finish_handshake(conn, p);
        return;
    }
    if (!c.handshake_ok) {
        if (p.type == ref::AUTH && c.auth_rounds_left > 0) {
            if (--c.auth_rounds_left > 0) { ref::Packet a; a.type = ref::AUTH; a.has_rc = true; a.rc = 0x18; a.props = {ref::pstr(0x15, cfg.auth_method), ref::pstr(0x16, "chal" + std::to_string(c.auth_rounds_left))}; emit(conn, a); }
            else finish_handshake(conn, pending_connect_[conn]);
            return;
        }
        if (p.type != ref::DISCONNECT)
            violation("C10: " + std::string(ref::ptype_name(p.type)) + " written before a successful CONNACK on connection " + std::to_string(conn));
        if (p.type == ref::DISCONNECT) { c.disconnected = true; close_conn(conn); }
        return;
    }
    if (hostile_now) { emit_raw(conn, cfg.hostile.raw, true); if (!cfg.hostile.also_normal_reply) return; }
    Session* sp = session_of(conn); if (!sp) return; Session& s = *sp;
    switch (p.type) {
    case ref::PUBLISH: {
        if (p.qos() == 0) break;
        c.inflight.insert(p.pid); if (int(c.inflight.size()) > c.max_inflight) c.max_inflight = int(c.inflight.size());
        if (cfg.hold_publish_acks && (cfg.hold_acks_first_conns == 0 || conn < cfg.hold_acks_first_conns)) break;
        if (p.qos() == 1) { ref::Packet a; a.type = ref::PUBACK; a.pid = p.pid; a.has_pid = true; a.has_rc = true; a.rc = cfg.puback_rc; a.props = ack_props_of(cfg, "puback"); a.has_props = true; emit(conn, a); }
        else { if (cfg.pubrec_rc < 0x80) s.inbound_qos2.insert(p.pid);
            ref::Packet a; a.type = ref::PUBREC; a.pid = p.pid; a.has_pid = true; a.has_rc = true; a.rc = cfg.pubrec_rc; a.props = ack_props_of(cfg, "pubrec"); a.has_props = true; emit(conn, a); }
        break; }
    case ref::PUBREL: {
        c.inflight.insert(p.pid); if (int(c.inflight.size()) > c.max_inflight) c.max_inflight = int(c.inflight.size());
        bool known = s.inbound_qos2.erase(p.pid) > 0;
        ref::Packet a; a.type = ref::PUBCOMP; a.pid = p.pid; a.has_pid = true; a.has_rc = true; a.rc = known ? cfg.pubcomp_rc : 0x92; a.props = ack_props_of(cfg, "pubcomp"); a.has_props = true; emit(conn, a);
        break; }
    case ref::SUBSCRIBE: {
        std::vector<uint8_t> rcs;
        if (subs_seen < int(cfg.suback_script.size())) rcs = cfg.suback_script[subs_seen];
        else for (auto& f : p.filters) rcs.push_back(f.second & 3);
        subs_seen++;
        for (size_t i = 0; i < p.filters.size() && i < rcs.size(); ++i) if (rcs[i] < 0x80) s.subs[p.filters[i].first] = p.filters[i].second;
        ref::Packet a; a.type = ref::SUBACK; a.pid = p.pid; a.has_pid = true; a.rcs = rcs; a.props = ack_props_of(cfg, "suback"); emit(conn, a);
        break; }
    case ref::UNSUBSCRIBE: {
        std::vector<uint8_t> rcs;
        if (unsubs_seen < int(cfg.unsuback_script.size())) rcs = cfg.unsuback_script[unsubs_seen];
        else for (auto& f : p.filters) rcs.push_back(s.subs.erase(f.first) ? 0x00 : 0x11);
        unsubs_seen++;
        ref::Packet a; a.type = ref::UNSUBACK; a.pid = p.pid; a.has_pid = true; a.rcs = rcs; a.props = ack_props_of(cfg, "unsuback"); emit(conn, a);
        break; }
    case ref::PINGREQ: if (cfg.pingresp) { ref::Packet a; a.type = ref::PINGRESP; emit(conn, a); } break;
    case ref::DISCONNECT: c.disconnected = true; close_conn(conn); break;
    case ref::PUBACK: {
        // identifiers are reused: the exchange in progress is matched first, an already settled one only for duplicate acknowledgements
        bool found = false; for (auto& m : s.out) if (m.pid == p.pid && m.qos == 1 && m.st == OutMsg::SENT) { found = true; m.acks_seen++; m.st = OutMsg::DONE; break; }
        if (!found) for (auto& m : s.out) if (m.pid == p.pid && m.qos == 1 && m.st == OutMsg::DONE) { found = true; m.acks_seen++; break; }
        if (!found) violation("C04: PUBACK for packet id " + std::to_string(p.pid) + " that no QoS 1 message of the broker carries");
        break; }
    case ref::PUBREC: {
        bool found = false; for (auto& m : s.out) if (m.pid == p.pid && m.qos == 2 && (m.st == OutMsg::SENT || m.st == OutMsg::PUBREC_RCVD)) { found = true; m.acks_seen++; if (!p.has_rc || p.rc < 0x80) m.st = OutMsg::PUBREC_RCVD; else m.st = OutMsg::DONE; break; }
        if (!found) { bool done = false; for (auto& m : s.out) if (m.pid == p.pid && m.qos == 2 && m.st == OutMsg::DONE) done = true;
            if (!done) violation("C04: PUBREC for packet id " + std::to_string(p.pid) + " that no QoS 2 message of the broker carries"); }
        ref::Packet r; r.type = ref::PUBREL; r.pid = p.pid; r.has_pid = true; r.has_rc = !found; r.rc = found ? 0 : 0x92; r.has_props = false; emit(conn, r);
        break; }
    case ref::PUBCOMP: {
        bool found = false; for (auto& m : s.out) if (m.pid == p.pid && m.qos == 2 && m.st == OutMsg::PUBREC_RCVD) { found = true; m.st = OutMsg::DONE; break; }
        if (!found) { bool early = false; for (auto& m : s.out) if (m.pid == p.pid && m.qos == 2 && m.st == OutMsg::SENT) early = true;
            if (early) violation("C04: PUBCOMP for packet id " + std::to_string(p.pid) + " before the broker sent PUBREL"); }
        break; }
    case ref::AUTH: {
        ref::Packet a; a.type = ref::AUTH; a.has_rc = true; a.rc = 0x00; a.props = {ref::pstr(0x15, cfg.auth_method), ref::pstr(0x16, "reauth-ok")}; emit(conn, a);
        break; }
    default: break;
    }
    (void)raw;
}

} // namespace bkr
