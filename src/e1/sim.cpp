#include "sim.hpp"
#include "vclock.hpp"
#include <boost/asio/error.hpp>

namespace sim {

Net* g_net = nullptr;

void Net::note(const std::string& w) { log.push_back({vclock::now_ns(), w}); }

StreamPtr Net::new_stream(const asio::any_io_executor& ex) {
    auto s = std::make_shared<StreamState>(); s->id = int(streams.size()); s->ex = ex; streams.push_back(s); return s;
}
void Net::stream_destroyed(const StreamPtr& s) { if (!s->destroyed) { close(s); s->destroyed = true; } }
void Net::open(const StreamPtr& s) { s->open = true; }

template <class H, class... A>
static void post_handler(Net& n, const asio::any_io_executor& ex, H&& h, A... a) {
    n.handler_posts++;
    auto slot = asio::get_associated_cancellation_slot(h);
    if (slot.is_connected()) slot.clear();
    asio::post(ex, asio::prepend(std::move(h), a...));
}

void Net::close(const StreamPtr& s) {
    if (s->connect_parked) complete_connect(s, asio::error::operation_aborted);
    if (s->read_parked) { auto h = std::move(s->read_h); s->read_parked = false; post_handler(*this, s->ex, std::move(h), error_code(asio::error::operation_aborted), size_t(0)); s->read_w.reset(); }
    if (s->write_parked) complete_write(s, asio::error::operation_aborted, 0);   // (logged like every other write completion)
    if (s->shutdown_parked) complete_shutdown(s, asio::error::operation_aborted);
    if (s->conn >= 0 && !conns[s->conn].client_closed) { conns[s->conn].client_closed = true; if (broker) broker->on_client_close(s->conn); }
    if (s->open || s->connected) { note("close stream " + std::to_string(s->id)); if (s->closed_ns < 0) { s->closed_ns = vclock::now_ns(); s->closed_after_stop = stop_marker; } }
    s->open = false; s->connected = false;
}

void Net::shutdown_both(const StreamPtr& s) {
    s->shut = true;
    if (s->read_parked) complete_read(s, asio::error::eof, 0);
    if (s->write_parked) complete_write(s, asio::error::broken_pipe, 0);
    if (s->conn >= 0 && !conns[s->conn].client_closed) { conns[s->conn].client_closed = true; if (broker) broker->on_client_close(s->conn); }
    note("shutdown stream " + std::to_string(s->id));
}

void Net::park_connect(const StreamPtr& s, const tcp::endpoint& ep, Handler0 h) {
    connect_calls++; if (stop_marker) connects_after_stop++;
    s->open = true;
    s->connect_parked = true; s->connect_hung = false; s->connect_ep = ep; s->connect_started_ns = vclock::now_ns();
    s->connect_w.emplace(asio::make_work_guard(s->ex));
    auto slot = asio::get_associated_cancellation_slot(h);
    if (slot.is_connected()) { std::weak_ptr<StreamState> w = s; slot.assign([w](asio::cancellation_type_t) { if (auto p = w.lock()) if (g_net) g_net->cancel_op(p, OP_CONNECT); }); }
    s->connect_h = std::move(h);
    int par = parallel_connects(); if (par > max_parallel_connects) max_parallel_connects = par;
    int att = attempts_in_progress(); if (att > max_attempts_in_progress) max_attempts_in_progress = att;
    s->connect_seq = ++op_seq;
    note("connect start stream " + std::to_string(s->id) + " -> " + ep.address().to_string() + ":" + std::to_string(ep.port()));
}

void Net::park_read(const StreamPtr& s, char* p, size_t cap, HandlerRW h) {
    if (cap == 0) { post_handler(*this, s->ex, std::move(h), error_code(), size_t(0)); return; }
    if (!s->open || !s->connected) { post_handler(*this, s->ex, std::move(h), error_code(s->open ? asio::error::not_connected : asio::error::bad_descriptor), size_t(0)); return; }
    s->read_parked = true; s->read_ptr = p; s->read_cap = cap; s->read_w.emplace(asio::make_work_guard(s->ex));
    auto slot = asio::get_associated_cancellation_slot(h);
    if (slot.is_connected()) { std::weak_ptr<StreamState> w = s; slot.assign([w](asio::cancellation_type_t) { if (auto q = w.lock()) if (g_net) g_net->cancel_op(q, OP_READ); }); }
    s->read_h = std::move(h);
    if (s->conn >= 0 && conns[s->conn].first_read_start_ns < 0) conns[s->conn].first_read_start_ns = vclock::now_ns();
    if (s->shut) complete_read(s, asio::error::eof, 0);
}

void Net::park_write(const StreamPtr& s, std::string data, HandlerRW h) {
    if (stop_marker) writes_started_after_stop++;
    if (!s->open || !s->connected) { post_handler(*this, s->ex, std::move(h), error_code(s->open ? asio::error::not_connected : asio::error::bad_descriptor), size_t(0)); return; }
    if (!(s->lw_written > 0 && s->lw_written < s->lw_data.size() && s->lw_data.compare(s->lw_written, std::string::npos, data) == 0)) { s->lw_data = data; s->lw_written = 0; s->lw_start_ns = vclock::now_ns(); s->lw_seq_start = ++op_seq; }
    s->write_parked = true; s->write_data = std::move(data); s->write_delivered = false; s->write_hung = false; s->write_w.emplace(asio::make_work_guard(s->ex));
    auto slot = asio::get_associated_cancellation_slot(h);
    if (slot.is_connected()) { std::weak_ptr<StreamState> w = s; slot.assign([w](asio::cancellation_type_t) { if (auto q = w.lock()) if (g_net) g_net->cancel_op(q, OP_WRITE); }); }
    s->write_h = std::move(h);
    if (s->shut) complete_write(s, asio::error::broken_pipe, 0);
}

void Net::park_shutdown(const StreamPtr& s, Handler0 h) {
    s->shutdown_parked = true; s->shutdown_hung = false; s->shutdown_w.emplace(asio::make_work_guard(s->ex));
    auto slot = asio::get_associated_cancellation_slot(h);
    if (slot.is_connected()) { std::weak_ptr<StreamState> w = s; slot.assign([w](asio::cancellation_type_t) { if (auto q = w.lock()) if (g_net) g_net->cancel_op(q, OP_SHUTDOWN); }); }
    s->shutdown_h = std::move(h);
    note("shutdown start stream " + std::to_string(s->id));
}

void Net::complete_connect(const StreamPtr& s, error_code ec) {
    if (!s->connect_parked) return;
    auto h = std::move(s->connect_h); s->connect_parked = false; s->connect_hung = false;
    if (!ec) {
        s->connected = true; s->remote = s->connect_ep;
        Conn c; c.id = int(conns.size()); c.stream = s->id; c.ep = s->connect_ep; c.opened_ns = vclock::now_ns(); c.established = true;
        conns.push_back(c); s->conn = c.id;
        note("connect ok stream " + std::to_string(s->id) + " conn " + std::to_string(c.id));
        if (broker) broker->on_open(c.id);
    } else { note("connect fail stream " + std::to_string(s->id) + " " + ec.message()); s->connect_failed = (ec != asio::error::operation_aborted); }   // aborted = given up by the client itself (close / destruction), not a failure of the attempt
    s->connect_done_ns = vclock::now_ns();
    post_handler(*this, s->ex, std::move(h), ec);
    s->connect_w.reset();
}

void Net::complete_read(const StreamPtr& s, error_code ec, size_t n) {
    if (!s->read_parked) return;
    auto h = std::move(s->read_h); s->read_parked = false;
    size_t got = 0;
    if (n > 0 && s->conn >= 0) {
        Conn& c = conns[s->conn]; got = std::min(n, std::min(s->read_cap, c.b2c.size()));
        memcpy(s->read_ptr, c.b2c.data(), got); c.b2c.erase(0, got); c.bytes_b2c_read += got; c.last_read_ns = vclock::now_ns(); c.read_marks.emplace_back(c.bytes_b2c_read, c.last_read_ns); c.read_mark_seq.push_back(op_seq);
    }
    if (ec && ec != asio::error::operation_aborted && s->first_error_ns < 0) s->first_error_ns = vclock::now_ns();
    post_handler(*this, s->ex, std::move(h), ec, got);
    s->read_w.reset();
}

void Net::deliver_to_broker(const StreamPtr& s, size_t nbytes) {
    if (s->conn < 0) return;
    Conn& c = conns[s->conn];
    nbytes = std::min(nbytes, s->write_data.size());
    if (nbytes == 0 || c.client_closed) return;
    c.c2b.append(s->write_data, 0, nbytes); c.bytes_c2b += nbytes;
    int id = s->conn;
    if (broker) broker->on_bytes(id);
}

void Net::complete_write(const StreamPtr& s, error_code ec, size_t n) {
    if (!s->write_parked) return;
    auto h = std::move(s->write_h); s->write_parked = false;
    // log logical writes: a short successful write is continued by asio::async_write with the remaining bytes
    if (!ec && s->lw_written + n < s->lw_data.size()) s->lw_written += n;
    else { wlog.push_back({s->conn, s->id, s->lw_data, !ec, s->lw_written + (ec ? 0 : n), vclock::now_ns(), wire_size ? wire_size() : 0, s->lw_start_ns, s->lw_seq_start, op_seq}); s->lw_data.clear(); s->lw_written = 0; }
    s->write_data.clear();
    if (ec && ec != asio::error::operation_aborted && s->first_error_ns < 0) s->first_error_ns = vclock::now_ns();
    post_handler(*this, s->ex, std::move(h), ec, n);
    s->write_w.reset();
}

void Net::complete_shutdown(const StreamPtr& s, error_code ec) {
    if (!s->shutdown_parked) return;
    auto h = std::move(s->shutdown_h); s->shutdown_parked = false; s->shutdown_hung = false;
    if (s->conn >= 0 && !conns[s->conn].client_closed) { conns[s->conn].client_closed = true; if (broker) broker->on_client_close(s->conn); }
    post_handler(*this, s->ex, std::move(h), ec);
    s->shutdown_w.reset();
}

void Net::kill_conn(int conn, error_code ec) {
    if (conn < 0) return; Conn& c = conns[conn];
    if (!c.dead) { c.dead = true; c.dead_ec = ec; c.b2c.clear(); note("conn " + std::to_string(conn) + " dies: " + ec.message()); if (broker && !c.client_closed) { c.client_closed = true; broker->on_client_close(conn); } }
}

void Net::cancel_op(const StreamPtr& s, OpKind k) {
    switch (k) {
        case OP_CONNECT: complete_connect(s, asio::error::operation_aborted); break;
        case OP_READ: if (s->read_parked && s->read_cancelled_ns < 0) s->read_cancelled_ns = vclock::now_ns(); complete_read(s, asio::error::operation_aborted, 0); break;
        case OP_WRITE: complete_write(s, asio::error::operation_aborted, 0); break;
        case OP_SHUTDOWN: complete_shutdown(s, asio::error::operation_aborted); break;
    }
}

int Net::parked_count() const {
    int n = 0; for (auto& s : streams) n += int(s->connect_parked) + int(s->read_parked) + int(s->write_parked) + int(s->shutdown_parked); return n;
}
int Net::parallel_connects() const {
    // a connection attempt is in progress from async_connect until the stream either failed or is closed
    int n = 0; for (auto& s : streams) if (s->connect_parked) n++; return n;
}

int Net::attempts_in_progress() const {
    int n = 0;
    for (auto& s : streams) { if (s->destroyed || s->closed_ns >= 0) continue;
        if (s->connect_parked) { n++; continue; }
        if (s->connected && s->conn >= 0 && broker && !broker->handshake_done(s->conn) && !conns[s->conn].dead && !conns[s->conn].broker_closed && !s->shut) n++; }
    return n;
}

} // namespace sim
