// simnet explorer: iterative deviation-bounded, stateless DFS over environment decisions,
// parallelised over forked workers; every execution runs the real client from a fresh world.
#include "scenarios.hpp"
#include "../common/report.hpp"
#include <chrono>
#include <sys/mman.h>
#include <sys/wait.h>
#include <unistd.h>
#include <time.h>
#include <set>

using namespace e1;

static double wall_now() { struct timespec ts; clock_gettime(CLOCK_MONOTONIC, &ts); return ts.tv_sec + ts.tv_nsec / 1e9; }

// ---------------------------------------------------------------- shared memory structures
struct SharedSet {          // lock-free insert-only hash set of 64-bit digests
    uint64_t* tab; size_t cap; volatile uint64_t* count;
    void init(size_t c) { cap = c; tab = (uint64_t*)mmap(nullptr, cap * 8 + 64, PROT_READ | PROT_WRITE, MAP_SHARED | MAP_ANONYMOUS, -1, 0); count = (volatile uint64_t*)(tab + cap); }
    void insert(uint64_t v) { if (v == 0) v = 1; size_t i = (v * 0x9E3779B97F4A7C15ull) >> 20; for (size_t k = 0; k < cap; ++k) { size_t j = (i + k) % cap; uint64_t cur = tab[j];
        if (cur == v) return; if (cur == 0) { if (__sync_bool_compare_and_swap(&tab[j], 0, v)) { __sync_fetch_and_add(count, 1); return; } if (tab[j] == v) return; } } }
};
struct VioSlot { char sig[160]; char detail[400]; int scenario; int nchoices; int choices[400]; uint64_t count; };
struct ScStat { volatile uint64_t execs, points, transitions, capped, max_dev_seen, vio_execs; };
struct WorkerSlot { volatile int scenario; volatile int nchoices; int choices[400]; volatile int busy; };
struct Shared {
    volatile int next_unit; volatile int nvio; VioSlot vio[128]; WorkerSlot ws[64]; volatile int stop; volatile uint64_t divergences; volatile int planner_pos;
    char samples[6][1500]; volatile int nsamples;
    volatile int pass_done[12], pass_total[12];   // iterative deviation bound: units finished / planned per pass
};
static Shared* SH; static SharedSet STATES, OUTCOMES; static ScStat* SCST; static volatile uint64_t* REACT;   // per scenario: hash of the first reaction signature (C19 chunking independence)

static void record_violation(int scn, const Vio& v, const std::vector<ChoiceRec>& ch) {
    for (int i = 0; i < SH->nvio && i < 128; ++i) if (!strncmp(SH->vio[i].sig, v.sig.c_str(), 159)) { __sync_fetch_and_add(&SH->vio[i].count, 1); return; }
    int k = __sync_fetch_and_add(&SH->nvio, 1); if (k >= 128) return;
    VioSlot& s = SH->vio[k]; strncpy(s.sig, v.sig.c_str(), 159); strncpy(s.detail, v.detail.c_str(), 399); s.scenario = scn; s.nchoices = int(std::min<size_t>(ch.size(), 400));
    for (int i = 0; i < s.nchoices; ++i) s.choices[i] = ch[i].chosen; s.count = 1;
}

// scenario family = name without a trailing numeric id ("Z-idle-str-1568" -> "Z-idle-str")
static std::string family_of(const std::string& n) { size_t p = n.find_last_of('-'); if (p != std::string::npos && p + 1 < n.size() && n.find_first_not_of("0123456789", p + 1) == std::string::npos) return n.substr(0, p); return n; }

struct Exec { std::vector<std::pair<int, bool>> pts; };   // (n enabled, chosen was deviation)

static std::vector<Scenario> SCN;
static double g_deadline = 0;
static int g_slot = -1;

static bool run_one(int scn, const std::vector<int>& prefix, Exec& out, bool sample, bool count = true) {
    if (g_slot >= 0) { WorkerSlot& w = SH->ws[g_slot]; w.scenario = scn; w.nchoices = int(std::min<size_t>(prefix.size(), 400)); for (int i = 0; i < w.nchoices; ++i) w.choices[i] = prefix[i]; w.busy = 1; }
    World w(SCN[scn]); w.run(prefix);
    if (g_slot >= 0) SH->ws[g_slot].busy = 0;
    ScStat& st = SCST[scn];
    if (w.capped && w.cap_reason.rfind("REPLAY", 0) == 0) { __sync_fetch_and_add(&SH->divergences, 1); Vio v{"HARNESS:replay-divergence:" + SCN[scn].name, w.cap_reason}; record_violation(scn, v, w.choices); return false; }
    out.pts.clear(); for (auto& c : w.choices) out.pts.emplace_back(c.n, c.dev);
    if (!count) return true;   // re-execution of a shallower node in a deeper pass: it was judged and counted in its own pass
    __sync_fetch_and_add(&st.execs, 1); __sync_fetch_and_add(&st.points, w.choices.size()); __sync_fetch_and_add(&st.transitions, w.trace.size());
    if (w.capped) __sync_fetch_and_add(&st.capped, 1);
    for (auto& c : w.choices) STATES.insert(c.digest);
    STATES.insert(w.state_digest() ^ 0x5bd1e995u);      // the final state of every execution counts as a visited state too
    OUTCOMES.insert(w.outcome_digest() ^ (uint64_t(scn) << 56));
    if ((SCN[scn].monitors & M_C19) && !w.capped) {
        // all executions of a hostile-broker scenario differ only in how the same bytes are split into reads:
        // the client's reaction (packets written, handler results) must not depend on that
        uint64_t h = std::hash<std::string>()(w.reaction_signature()) | 1;
        uint64_t prev = __sync_val_compare_and_swap(&REACT[scn], 0, h);
        if (prev != 0 && prev != h) w.vios.push_back({"C19:chunking-dependent:" + SCN[scn].family(), "the same broker bytes split differently into reads produced a different client reaction: " + w.reaction_signature().substr(0, 200)});
    }
    // vacuity guard: the undisturbed execution of a scenario must get through its whole script
    if (prefix.empty() && w.script_pos < w.sc.script.size() && !w.capped && !SCN[scn].may_end_early) w.vios.push_back({"HARNESS:script-incomplete:" + SCN[scn].name, "the default execution ended at script position " + std::to_string(w.script_pos) + " of " + std::to_string(w.sc.script.size())});
    if (!w.vios.empty()) __sync_fetch_and_add(&st.vio_execs, 1);
    for (auto& v : w.vios) record_violation(scn, v, w.choices);
    if (sample && w.deviations > 0 && w.choices.size() < 300 && SH->nsamples < 6) {
        std::string s = "{\"scenario\":" + rep::jstr(SCN[scn].name) + ",\"choices\":["; for (size_t i = 0; i < w.choices.size(); ++i) { if (i) s += ","; s += std::to_string(w.choices[i].chosen); }
        s += "],\"deviations\":["; bool f = true; for (auto& c : w.choices) if (c.dev) { if (!f) s += ","; f = false; s += rep::jstr(c.what); } s += "],\"wire\":[";
        size_t n = 0; for (auto& e : w.broker->wire) { if (n++) s += ","; if (n > 14) { s += "\"...\""; break; } s += rep::jstr(std::string(e.c2b ? "C>" : "B>") + std::to_string(e.conn) + " " + (e.malformed ? "MALFORMED" : ref::describe(e.pkt))); }
        s += "]}"; if (s.size() < 1499) { int k = __sync_fetch_and_add(&SH->nsamples, 1); if (k < 6) strncpy(SH->samples[k], s.c_str(), 1499); } }   // never truncate: a cut sample would corrupt the report
    return true;
}

// DFS below `prefix` with deviation bound D
// Pass D of the iterative bound: executions with exactly D deviations are judged and counted; shallower nodes are only
// re-executed to learn their choice points (they were judged in their own pass).
static void dfs(int scn, std::vector<int> prefix, int D, uint64_t& counter) {
    if (SH->stop || (g_deadline > 0 && wall_now() > g_deadline)) { SH->stop = 1; return; }
    int pdevs = 0; for (int c : prefix) if (c != 0) pdevs++;    // every non-default choice in a prefix is a deviation
    Exec ex; if (!run_one(scn, prefix, ex, (counter++ % 977) == 5, pdevs == D)) return;
    int devs = 0; for (size_t i = 0; i < prefix.size() && i < ex.pts.size(); ++i) if (ex.pts[i].second) devs++;
    for (size_t i = prefix.size(); i < ex.pts.size(); ++i) {
        if (devs + 1 > D) break;
        for (int alt = 1; alt < ex.pts[i].first; ++alt) { std::vector<int> p(prefix); p.resize(i, 0); p.push_back(alt); dfs(scn, std::move(p), D, counter); if (SH->stop) return; }
    }
}

struct Unit { int scn; std::vector<int> prefix; int D; };   // D = pass number (deviation bound of this pass); 0 = the default execution

static int replay_file(const char* path, const std::string& set, int tier) {
    FILE* f = fopen(path, "r"); if (!f) { fprintf(stderr, "cannot open %s\n", path); return 2; }
    std::string s; char buf[4096]; size_t n; while ((n = fread(buf, 1, sizeof buf, f)) > 0) s.append(buf, n); fclose(f);
    auto grab = [&](const std::string& key) { size_t p = s.find("\"" + key + "\""); if (p == std::string::npos) return std::string(); p = s.find(':', p); size_t a = s.find_first_not_of(" \t\n", p + 1);
        if (s[a] == '"') { size_t b = s.find('"', a + 1); return s.substr(a + 1, b - a - 1); } if (s[a] == '[') { size_t b = s.find(']', a); return s.substr(a + 1, b - a - 1); } size_t b = s.find_first_of(",}\n", a); return s.substr(a, b - a); };
    std::string scname = grab("scenario"), rset = grab("set"); std::string tr = grab("tier"); std::string ch = grab("choices");
    SCN = scenarios_for(rset.empty() ? set : rset, tr.empty() ? tier : atoi(tr.c_str()));
    int scn = -1; for (size_t i = 0; i < SCN.size(); ++i) if (SCN[i].name == scname) scn = int(i);
    if (scn < 0) { fprintf(stderr, "scenario %s not found in set %s\n", scname.c_str(), rset.c_str()); return 2; }
    std::vector<int> prefix; size_t p = 0; while (p < ch.size()) { while (p < ch.size() && !isdigit(ch[p])) ++p; if (p >= ch.size()) break; prefix.push_back(atoi(ch.c_str() + p)); while (p < ch.size() && isdigit(ch[p])) ++p; }
    std::string first; int rc = 0;
    for (int round = 0; round < 2; ++round) {
        World w(SCN[scn]); w.run(prefix);
        std::string all; for (auto& t : w.trace) all += t + "\n";
        all += "--- wire ---\n"; for (auto& e : w.broker->wire) { char b[64]; snprintf(b, sizeof b, "[%9.3f] ", (e.t - vclock::BASE_NS) / 1e9); all += b + std::string(e.c2b ? "C->B " : "B->C ") + "conn" + std::to_string(e.conn) + " " + (e.malformed ? "MALFORMED(" + e.why + ") " + ref::hex(e.raw) : ref::describe(e.pkt)) + "\n"; }
        all += "--- ops ---\n"; for (auto& o : w.ops) all += "op" + std::to_string(o.id) + " kind=" + std::to_string(o.kind) + " tag=" + std::to_string(o.tag) + " completions=" + std::to_string(o.completions) + " ec=" + (o.ec ? o.ec.message() : "ok") + " rc=" + std::to_string(o.rc) + "\n";
        all += "--- violations ---\n"; for (auto& v : w.vios) all += v.sig + ": " + v.detail + "\n"; if (w.capped) all += "CAP: " + w.cap_reason + "\n";
        if (round == 0) { first = all; printf("%s", all.c_str()); rc = w.vios.empty() ? 0 : 1; if (w.capped && w.cap_reason.rfind("REPLAY", 0) == 0) { printf("the recorded schedule does not fit this tree / scenario set any more\n"); return 2; } }
        else if (all != first) { printf("NON-DETERMINISTIC REPLAY: second run differs\n"); return 2; }
    }
    printf("replayed twice, identical traces\n");
    return rc;
}

int main(int argc, char** argv) {
    const char* out = rep::arg_value(argc, argv, "--out"); std::string set = rep::arg_value(argc, argv, "--set", "C02");
    int tier = rep::arg_flag(argc, argv, "--thorough") ? 1 : 0; int workers = atoi(rep::arg_value(argc, argv, "--workers", "16"));
    double budget = atof(rep::arg_value(argc, argv, "--budget", tier ? "1500" : "300"));
    int dcap = atoi(rep::arg_value(argc, argv, "--dcap", "99"));
    const char* only = rep::arg_value(argc, argv, "--scenario");
    if (const char* rp = rep::arg_value(argc, argv, "--replay")) return replay_file(rp, set, tier);
    SCN = scenarios_for(set, tier);
    if (only) { std::vector<Scenario> f; for (auto& s : SCN) if (s.name == only) f.push_back(s); SCN = f; }
    if (rep::arg_flag(argc, argv, "--list")) { for (auto& s : SCN) printf("%s %s mon=%x D=%d\n", set.c_str(), s.name.c_str(), unsigned(s.monitors), s.D); return 0; }
    if (SCN.empty()) { fprintf(stderr, "simnet: no scenarios (or too many) for set %s\n", set.c_str()); return 2; }
    for (auto& s : SCN) if (s.D > dcap) s.D = dcap;
    SH = (Shared*)mmap(nullptr, sizeof(Shared), PROT_READ | PROT_WRITE, MAP_SHARED | MAP_ANONYMOUS, -1, 0);
    REACT = (volatile uint64_t*)mmap(nullptr, 8 * (SCN.size() + 1), PROT_READ | PROT_WRITE, MAP_SHARED | MAP_ANONYMOUS, -1, 0);
    SCST = (ScStat*)mmap(nullptr, sizeof(ScStat) * (SCN.size() + 1), PROT_READ | PROT_WRITE, MAP_SHARED | MAP_ANONYMOUS, -1, 0);
    STATES.init(tier ? (1u << 26) : (1u << 23)); OUTCOMES.init(tier ? (1u << 24) : (1u << 21));
    double t0 = wall_now(); g_deadline = t0 + budget;
    rep::Report R;
    // determinism self-test + unit generation from the default executions. They run in a forked planner so that a
    // default schedule that kills the process (C19) is attributed to its scenario instead of taking the explorer down.
    std::vector<Unit> units, roots;
    {
        std::string planfile = std::string(out ? out : "/tmp/simnet") + ".plan";
        size_t start = 0; int planner_deaths = 0;
        FILE* trunc = fopen(planfile.c_str(), "w"); if (trunc) fclose(trunc);
        while (start < SCN.size()) {
            SH->planner_pos = int(start);
            pid_t pp = fork();
            if (pp == 0) {
                FILE* f = fopen(planfile.c_str(), "a");
                for (size_t i = start; i < SCN.size(); ++i) {
                    SH->planner_pos = int(i);
                    std::string d[2]; std::vector<ChoiceRec> ch;
                    for (int r = 0; r < 2; ++r) { World w(SCN[i]); w.run({}); for (auto& t : w.trace) d[r] += t + "\n"; d[r] += std::to_string(w.outcome_digest()); if (r == 0) ch = w.choices; }
                    if (d[0] != d[1]) { fprintf(f, "N %zu\n", i); fclose(f); _exit(3); }
                    fprintf(f, "S %zu", i); for (auto& c : ch) fprintf(f, " %d", c.n); fprintf(f, "\n"); fflush(f);
                }
                fclose(f); _exit(0);
            }
            int st = 0; waitpid(pp, &st, 0);
            if (WIFEXITED(st) && WEXITSTATUS(st) == 0) break;
            if (WIFEXITED(st) && WEXITSTATUS(st) == 3) { fprintf(stderr, "simnet: non-deterministic default execution of %s\n", SCN[SH->planner_pos].name.c_str()); return 2; }
            int bad = SH->planner_pos; planner_deaths++;
            Vio v{"C19:process-death:" + family_of(SCN[bad].name), "the process died (signal/abort/uncaught exception, status " + std::to_string(st) + ") while executing the default schedule"};
            record_violation(bad, v, {});
            start = size_t(bad) + 1;
        }
        FILE* f = fopen(planfile.c_str(), "r"); char line[8192];
        while (f && fgets(line, sizeof line, f)) { if (line[0] != 'S') continue; char* p = line + 2; size_t i = strtoul(p, &p, 10); std::vector<int> ns; while (*p && *p != '\n') { int n = int(strtol(p, &p, 10)); if (n > 0) ns.push_back(n); else break; }
            units.push_back({int(i), {}, 0});
            if (SCN[i].D >= 1) for (size_t q = 0; q < ns.size(); ++q) for (int alt = 1; alt < ns[q]; ++alt) { std::vector<int> pre(q, 0); pre.push_back(alt); roots.push_back({int(i), pre, SCN[i].D}); } }
        if (f) fclose(f); unlink(planfile.c_str());
    }
    // iterative deviation bound: pass b explores, for every scenario with D >= b, the executions with exactly b deviations;
    // all of pass b is queued before pass b+1, so that under a deadline the largest completed bound can be stated
    int maxD = 0; for (auto& s : SCN) maxD = std::max(maxD, std::min(s.D, 11));
    SH->pass_total[0] = int(units.size());
    for (int b = 1; b <= maxD; ++b) for (auto& r : roots) if (r.D >= b) { units.push_back({r.scn, r.prefix, b}); SH->pass_total[b]++; }
    roots.clear(); roots.shrink_to_fit();
    std::vector<pid_t> pids(workers);
    auto spawn = [&](int w) { pid_t p = fork(); if (p == 0) { g_slot = w; uint64_t counter = w * 131;
            for (;;) { int k = __sync_fetch_and_add(&SH->next_unit, 1); if (k >= int(units.size()) || SH->stop) break; Unit& u = units[k];
                if (u.prefix.empty()) { Exec ex; run_one(u.scn, {}, ex, true); } else dfs(u.scn, u.prefix, u.D, counter);
                if (!SH->stop) __sync_fetch_and_add(&SH->pass_done[u.D], 1); }
            _exit(0); } pids[w] = p; };
    for (int w = 0; w < workers; ++w) spawn(w);
    int crashes = 0;
    for (int alive = workers; alive > 0;) {
        int st; pid_t p = wait(&st); if (p < 0) break; int w = -1; for (int i = 0; i < workers; ++i) if (pids[i] == p) w = i; if (w < 0) continue;
        if (WIFEXITED(st) && WEXITSTATUS(st) == 0) { alive--; continue; }
        // crash / sanitizer abort / uncaught exception inside an execution: attributable through the worker slot
        WorkerSlot& ws = SH->ws[w]; crashes++;
        Vio v{"C19:process-death:" + family_of(SCN[ws.scenario].name), "the process died (signal/abort/uncaught exception, status " + std::to_string(st) + ") while executing this schedule"};
        std::vector<ChoiceRec> ch(ws.nchoices); for (int i = 0; i < ws.nchoices; ++i) ch[i].chosen = ws.choices[i]; record_violation(ws.scenario, v, ch);
        if (crashes < 64 && !SH->stop) spawn(w); else alive--;
    }
    bool timed_out = SH->stop != 0;
    // report
    uint64_t execs = 0, points = 0, trans = 0, capped = 0; std::string per = "[";
    for (size_t i = 0; i < SCN.size(); ++i) { ScStat& s = SCST[i]; execs += s.execs; points += s.points; trans += s.transitions; capped += s.capped;
        if (i) per += ","; per += "{\"scenario\":" + rep::jstr(SCN[i].name) + ",\"D\":" + std::to_string(SCN[i].D) + ",\"executions\":" + std::to_string(s.execs) + ",\"choice_points\":" + std::to_string(s.points) + ",\"capped\":" + std::to_string(s.capped) + "}"; }
    per += "]";
    if (SCN.size() > 60) { per = "{\"count\":" + std::to_string(SCN.size()) + ",\"first\":" + rep::jstr(SCN.front().name) + ",\"last\":" + rep::jstr(SCN.back().name) + "}"; }
    R.evaluations = execs; R.states = *STATES.count; R.transitions = trans; R.traces = execs; R.distinct_nontrivial = *OUTCOMES.count; R.exhaustive = !timed_out;
    R.rule = "set " + set + ": every execution reachable with at most D deviations (faults/reorderings/injections, D per scenario in notes) from the canonical default schedule of each scenario, "
             "each executed on the real mqtt_client in a fresh simulated world; states = distinct world-state digests at choice points; distinct_nontrivial = distinct outcomes (wire trace + handler results)";
    R.note("scenarios", per); R.note_num("choice_points", points); R.note_num("executions_capped", capped); R.note_num("units", units.size()); R.note_num("worker_crashes", crashes);
    { int done_b = -1; std::string pj = "["; for (int b = 0; b <= maxD; ++b) { if (b) pj += ","; pj += "{\"deviations\":" + std::to_string(b) + ",\"units_done\":" + std::to_string(SH->pass_done[b]) + ",\"units\":" + std::to_string(SH->pass_total[b]) + "}"; if (done_b == b - 1 && SH->pass_done[b] == SH->pass_total[b]) done_b = b; }
      pj += "]"; R.note("passes", pj); R.note_num("deviation_bound_completed_for_all_scenarios", uint64_t(std::max(done_b, 0))); R.note_num("deviation_bound_max", uint64_t(maxD)); }
    R.note("deadline_hit", timed_out ? "true" : "false"); R.note_num("wall_s", uint64_t(wall_now() - t0));
    for (int i = 0; i < SH->nvio && i < 128; ++i) { VioSlot& v = SH->vio[i];
        std::string rj = "{\"kind\":\"simnet\",\"set\":" + rep::jstr(set) + ",\"tier\":" + std::to_string(tier) + ",\"scenario\":" + rep::jstr(SCN[v.scenario].name) + ",\"choices\":[";
        for (int k = 0; k < v.nchoices; ++k) { if (k) rj += ","; rj += std::to_string(v.choices[k]); } rj += "]}";
        R.violation(v.sig, v.detail, rj); R.vio_count[v.sig] = v.count; }
    for (int i = 0; i < SH->nsamples && i < 6; ++i) R.sample(SH->samples[i]);
    // vacuity guard: a set explored with deviations must have produced more than one outcome
    bool any_dev = false; for (auto& s : SCN) if (s.D > 0) any_dev = true;
    if (any_dev && *OUTCOMES.count < 2 && execs > 1) { fprintf(stderr, "simnet: vacuous exploration (one outcome from %llu executions)\n", (unsigned long long)execs); return 2; }
    return R.write(out);
}
