// Event loop of one simnet execution. Compiled with -fno-access-control: it reads asio's timer
// heap and the resolver's work counter (asio internals, not /repo).
#include "world.hpp"
#include "scenarios.hpp"
#include <boost/asio/detail/deadline_timer_service.hpp>
#include <boost/asio/detail/resolver_service.hpp>
#include <boost/asio/steady_timer.hpp>
#include <sched.h>

namespace e1 {

static const char* EVN[] = {"none", "connect-ok", "write-ok", "write-on-dead-conn", "write-complete-late", "read", "read-err", "read-eof", "shutdown-ok", "release", "app", "time",
    "connect-refused", "connect-hang", "hs-rc", "hs-malformed", "hs-silent", "hs-close", "wr-fail", "wr-short", "tail-loss", "wr-deliver-only", "wr-fail-late",
    "wr-noreply", "wr-delay", "wr-bclose-before", "wr-bclose-after", "rd-chunk", "rd-cut", "rd-loss", "shutdown-hang", "inject", "continue", "resolve-done", "resolve-fail", "wr-hang"};
std::string Event::str() const {
    std::string s = EVN[k]; if (stream >= 0) s += " s" + std::to_string(stream);
    if (k == WR_FAIL || k == WR_SHORT || k == TAIL_LOSS || k == RD_CHUNK || k == RD_CUT) s += " k=" + std::to_string(a);
    if (k == WR_FAIL || k == RD_CUT || k == RD_LOSS || k == WR_FAIL_LATE) s += e == 0 ? " eof" : e == 1 ? " reset" : " pipe";
    return s;
}
static error_code err_of(int e) { return e == 0 ? error_code(asio::error::eof) : e == 1 ? error_code(asio::error::connection_reset) : error_code(asio::error::broken_pipe); }

World::World(const Scenario& s) : sc(s) {
    vclock::reset(); vclock::dns_config(s.dns_fail_mask, s.dns_two_mask); vclock::dns_gate(s.gate_dns);
    net = std::make_unique<sim::Net>(); sim::g_net = net.get();
    ioc = std::make_unique<asio::io_context>();
    broker = std::make_unique<bkr::Broker>(*net, s.broker);
    net->wire_size = [this]() { return broker ? broker->wire.size() : size_t(0); };
    client = s.flavour == 1 ? cli::make_client_tcp(*ioc) : cli::make_client_generic(*ioc);
    client->brokers(s.hosts, s.port); client->credentials(s.client_id, s.user, s.pass); client->keep_alive(s.keep_alive);
    client->will(s.will); if (!s.connect_props.empty()) client->connect_props(s.connect_props); client->authenticator(s.auth);
    if (s.initial_last_serial) client->poke_last_serial(s.initial_last_serial);
}

World::~World() {
    vclock::dns_release_all();   // a lookup still parked in the gate must finish before the resolver thread can be joined
    if (client) { client->destroy(); client.reset(); }
    // parked handlers hold work guards and shared_ptrs into the client: drop them before the context goes away
    for (auto& st : net->streams) {
        st->connect_h = nullptr; st->read_h = nullptr; st->write_h = nullptr; st->shutdown_h = nullptr;
        st->connect_w.reset(); st->read_w.reset(); st->write_w.reset(); st->shutdown_w.reset();
        st->connect_parked = st->read_parked = st->write_parked = st->shutdown_parked = false;
    }
    for (auto& o : ops) o.sig.reset();
    ioc.reset();
    broker.reset();
    sim::g_net = nullptr;
    net.reset();
}

void World::tr(const std::string& s) { char b[32]; snprintf(b, sizeof b, "[%9.3f] ", (now() - vclock::BASE_NS) / 1e9); trace.push_back(b + s); }

bool World::resolver_busy() {
    using rsvc = asio::detail::resolver_service<asio::ip::tcp>;
    if (!asio::has_service<rsvc>(*ioc)) return false;
    auto& r = asio::use_service<rsvc>(*ioc);
    if (!r.work_scheduler_.get()) return false;
    return r.work_scheduler_->outstanding_work_ > 1;
}

using timer_traits = asio::detail::chrono_time_traits<std::chrono::steady_clock, asio::wait_traits<std::chrono::steady_clock>>;
using timer_svc = asio::detail::deadline_timer_service<timer_traits>;
std::optional<int64_t> World::next_timer() {
    std::optional<int64_t> env;
    for (auto& d : env_deadlines) { auto& st = net->streams[d.second]; if (st->write_parked && st->write_hung && (!env || d.first < *env)) env = d.first; }
    if (!asio::has_service<timer_svc>(*ioc)) return env;
    auto& q = asio::use_service<timer_svc>(*ioc).timer_queue_;
    if (q.heap_.empty()) return env;
    int64_t t = int64_t(q.heap_[0].time_.time_since_epoch().count());
    if (t - vclock::now_ns() > 1000000000LL * 86400 * 365 * 10) return env;   // 'never' timers (keep-alive 0)
    return env && *env < t ? *env : t;
}
int World::pending_timers() {
    if (!asio::has_service<timer_svc>(*ioc)) return 0;
    return int(asio::use_service<timer_svc>(*ioc).timer_queue_.heap_.size());
}

void World::drain() {
    uint64_t budget = 200000, n0 = handlers_run;
    bool first = true;
    auto injection_point = [&](const char* where) -> bool {
        if ((sc.fam & F_FINENET) && cur_prefix && !capped && deviations < sc.D) {
            // in asio several I/O completions can be queued at once: another enabled network completion may be posted
            // (and hence run) between two continuations of the current one
            std::vector<Event> all, ev; enabled(all); Event c; c.k = Event::CONTINUE; ev.push_back(c);
            for (auto& e : all) if (e.k == Event::CONNECT_OK || e.k == Event::WRITE_OK || e.k == Event::WRITE_COMPLETE_LATE || e.k == Event::READ_ALL || e.k == Event::READ_ERR || e.k == Event::READ_EOF || e.k == Event::SHUTDOWN_OK || e.k == Event::RELEASE) { Event x = e; x.deviation = true; ev.push_back(x); }
            if (ev.size() > 1) {
                int idx = choose(ev, *cur_prefix); if (idx < 0) return false;
                ChoiceRec cr; cr.n = int(ev.size()); cr.chosen = idx; cr.dev = idx > 0; cr.what = ev[idx].str() + where; cr.digest = 0; choices.push_back(cr);
                if (idx > 0) { deviations++; last_deviation_ns = now(); tr("event: " + ev[idx].str() + where + "  (deviation)"); apply(ev[idx]); }
            }
        }
        if (!((sc.fam & F_FINE) && (sc.fam & F_INJECT) && sc.inject && !injected && cur_prefix && !capped)) return true;
        if (in_epilogue && (!sc.after_inject.empty() || !sc.on_complete.empty())) return true;   // follow-up actions would start after the final cancel(): nothing would ever stop them
        // handler-granular injection point: [continue draining | perform the injected action now]
        std::vector<Event> ev(2); ev[0].k = Event::CONTINUE; ev[1].k = Event::INJECT; ev[1].deviation = true;
        int idx = choose(ev, *cur_prefix); if (idx < 0) return false;
        ChoiceRec cr; cr.n = 2; cr.chosen = idx; cr.dev = idx == 1; cr.what = ev[idx].str() + where; cr.digest = 0; choices.push_back(cr);
        if (idx == 1) { deviations++; last_deviation_ns = now(); tr(std::string("event: inject") + where + "  (deviation)"); injected = true; do_action(*sc.inject, false); for (auto& more : sc.inject_more) do_action(more, false); }
        return true;
    };
    for (;;) {
        if (ioc->stopped()) ioc->restart();
        // also before the first handler: a completion that the environment has just posted (e.g. a successful write) has not run yet
        if (first && step_no > 0) { first = false; if (!injection_point(" (before the posted completion runs)")) break; }
        size_t n = ioc->poll_one();
        if (n == 0) {
            if (resolver_busy()) { if (sc.gate_dns && vclock::dns_pending() > 0) break;   // quiescent with a lookup parked in the gate
                sched_yield(); continue; }
            // the resolver thread posts its completion before it drops its work count: having seen
            // "not busy", one more poll is needed to be sure the completion is not sitting in the queue
            if (ioc->stopped()) ioc->restart();
            n = ioc->poll_one();
            if (n == 0) break;
        }
        handlers_run += n;
        if (!injection_point(" (between handlers)")) break;
        if (handlers_run - n0 > budget) { vio("C19:livelock:" + sc.family(), "more than 200000 handlers ran without the client becoming quiescent"); capped = true; cap_reason = "livelock"; break; }
    }
}

bool World::all_user_ops_done() const {
    for (auto& o : ops) if ((o.kind == Action::PUB || o.kind == Action::SUB || o.kind == Action::UNSUB || o.kind == Action::DISC) && o.completions == 0) return false;
    return true;
}

// packet boundaries of a byte string that starts at a packet boundary
static std::vector<int> boundaries_of(const std::string& d) {
    std::vector<int> b; size_t i = 0;
    while (i < d.size()) {
        size_t j = i + 1; uint32_t v = 0; int sh = 0; bool ok = false;
        while (j < d.size() && sh <= 21) { uint8_t c = uint8_t(d[j++]); v |= uint32_t(c & 0x7F) << sh; sh += 7; if (!(c & 0x80)) { ok = true; break; } }
        if (!ok || j + v > d.size()) break;
        i = j + v; b.push_back(int(i));
    }
    return b;
}
std::vector<int> World::cut_positions(const std::string& d, bool byte_level) const {
    std::vector<int> v; int len = int(d.size());
    if (byte_level) { for (int k = 0; k <= len; ++k) v.push_back(k); return v; }
    std::vector<int> b = boundaries_of(d); std::vector<int> c = {0};
    for (int x : b) { c.push_back(x); if (x + 1 < len) c.push_back(x + 1); }
    if (len > 1) { c.push_back(1); c.push_back(len - 1); } c.push_back(len);
    std::sort(c.begin(), c.end()); c.erase(std::unique(c.begin(), c.end()), c.end());
    return c;
}

bool World::app_action_enabled() const {
    if (script_pos >= sc.script.size()) return false;
    const Action& a = sc.script[script_pos];
    if (a.k == Action::BARRIER) return all_user_ops_done();
    if (a.k == Action::WAIT_HS) return broker->handshakes_ok >= a.n;
    if (a.k == Action::BWAIT) { for (auto& kv : broker->sessions) for (auto& m : kv.second.out) if (m.qos > 0 && m.st != bkr::OutMsg::DONE) return false; return true; }   // the broker's outbound exchanges are settled
    return true;
}

void World::enabled(std::vector<Event>& ev) {
    std::vector<Event> defaults, late, variants;
    uint32_t fam = sc.fam; bool bytelvl = fam & F_BYTE;
    if (script_pos < sc.faults_from_pos) fam = 0;   // the scenario wants an undisturbed prologue (e.g. requests that must meet a known CONNACK)
    auto add = [](std::vector<Event>& v, Event::K k, int s, int a = 0, int e = 0) { Event x; x.k = k; x.stream = s; x.a = a; x.e = e; v.push_back(x); };
    for (auto& st : net->streams) {
        int s = st->id;
        if (st->connect_parked && !st->connect_hung) {
            add(defaults, Event::CONNECT_OK, s);
            if (fam & F_CONN) { add(variants, Event::CONNECT_REFUSED, s); add(variants, Event::CONNECT_HANG, s); }
        }
        sim::Conn* c = net->conn_of(st);
        if (st->write_parked && !st->write_hung) {
            if (st->write_delivered) { add(late, Event::WRITE_COMPLETE_LATE, s); if (fam & F_WR) add(variants, Event::WR_FAIL_LATE, s, 0, 1); }
            else if (c && c->dead) add(defaults, Event::WRITE_DEAD, s);
            else {
                add(defaults, Event::WRITE_OK, s);
                const std::string& d = st->write_data; int len = int(d.size());
                bool is_connect = len > 0 && (uint8_t(d[0]) >> 4) == 1;
                if ((fam & F_HS) && is_connect) { add(variants, Event::HS_RC, s); add(variants, Event::HS_MALFORMED, s); add(variants, Event::HS_SILENT, s); add(variants, Event::HS_CLOSE, s); }
                if ((fam & F_WR) && !is_connect) add(variants, Event::WRITE_HANG, s);   // send buffer full / dead peer: the write stays pending until the stream is closed
                if (fam & F_WR) for (int k : cut_positions(d, bytelvl)) { add(variants, Event::WR_FAIL, s, k, (k % 2) ? 1 : 2); if (k == 0) add(variants, Event::WR_FAIL, s, k, 1); }
                if ((fam & F_WRSHORT) && len > 1) { add(variants, Event::WR_SHORT, s, 1); if (len > 3) add(variants, Event::WR_SHORT, s, len / 2); }
                if (fam & F_TAIL) { auto b = boundaries_of(d); b.insert(b.begin(), 0); for (int x : b) if (x < len) add(variants, Event::TAIL_LOSS, s, x); }
                if (fam & F_REORDER) add(variants, Event::WR_DELIVER_ONLY, s);
                if (!is_connect) {
                    if (fam & F_NOREPLY) add(variants, Event::WR_NOREPLY, s);
                    if (fam & F_DELAY) add(variants, Event::WR_DELAY, s);
                    if (fam & F_BCLOSE) { add(variants, Event::WR_BCLOSE_BEFORE, s); add(variants, Event::WR_BCLOSE_AFTER, s); }
                }
            }
        }
        if (st->read_parked) {
            if (c && c->dead) add(defaults, Event::READ_ERR, s);
            else if (c && !c->b2c.empty()) {
                add(defaults, Event::READ_ALL, s);
                int avail = int(std::min(c->b2c.size(), st->read_cap));
                if (fam & F_CHUNK) for (int k : cut_positions(c->b2c.substr(0, avail), bytelvl)) if (k > 0 && k < avail) add(variants, Event::RD_CHUNK, s, k);
                if (fam & F_RDCUT) for (int k : cut_positions(c->b2c.substr(0, avail), bytelvl)) if (k < avail) add(variants, Event::RD_CUT, s, k, k % 2);
            }
            else if (c && c->broker_closed) add(defaults, Event::READ_EOF, s);
            else if (c && (fam & F_LOSS)) { add(variants, Event::RD_LOSS, s, 0, 0); add(variants, Event::RD_LOSS, s, 0, 1); }
        }
        if (st->shutdown_parked && !st->shutdown_hung) { add(defaults, Event::SHUTDOWN_OK, s); if (fam & F_SHUT) add(variants, Event::SHUTDOWN_HANG, s); }
    }
    if (sc.gate_dns && vclock::dns_pending() > 0) { add(defaults, Event::RESOLVE_DONE, -1); if (fam & F_CONN) add(variants, Event::RESOLVE_FAIL, -1); }
    for (auto& e : late) defaults.push_back(e);
    for (size_t i = 0; i < broker->cs.size(); ++i) if (broker->has_held(int(i)) && !net->conns[i].dead) add(defaults, Event::RELEASE, -1, int(i));
    if (app_action_enabled()) add(defaults, Event::APP, -1);
    if (next_timer()) add(defaults, Event::TIME, -1);
    if ((fam & F_INJECT) && sc.inject && !injected) add(variants, Event::INJECT, -1);
    ev.clear();
    if (defaults.empty()) { for (auto& v : variants) if (v.k == Event::INJECT) { Event x = v; x.deviation = true; ev.push_back(x); } return; }
    if (fam & F_REORDER) { for (size_t i = 0; i < defaults.size(); ++i) { Event x = defaults[i]; x.deviation = i > 0; ev.push_back(x); } }
    else ev.push_back(defaults[0]);
    for (auto& v : variants) { Event x = v; x.deviation = true; ev.push_back(x); }
}

void World::apply(const Event& e) {
    sim::StreamPtr st = e.stream >= 0 ? net->streams[e.stream] : nullptr;
    sim::Conn* c = st ? net->conn_of(st) : nullptr; int cid = st ? st->conn : -1;
    size_t len = st ? st->write_data.size() : 0;
    switch (e.k) {
    case Event::CONNECT_OK: net->complete_connect(st, {}); break;
    case Event::CONNECT_REFUSED: net->complete_connect(st, asio::error::connection_refused); break;
    case Event::CONNECT_HANG: st->connect_hung = true; break;
    case Event::WRITE_OK: net->deliver_to_broker(st, len); net->complete_write(st, {}, len); break;
    case Event::WRITE_DEAD: net->complete_write(st, c->dead_ec == asio::error::eof ? error_code(asio::error::broken_pipe) : c->dead_ec, 0); break;
    case Event::WRITE_COMPLETE_LATE: net->complete_write(st, {}, len); break;
    case Event::HS_RC: case Event::HS_MALFORMED: case Event::HS_SILENT: case Event::HS_CLOSE:
        broker->next_hs_variant = e.k == Event::HS_RC ? bkr::HS_RC : e.k == Event::HS_MALFORMED ? bkr::HS_MALFORMED : e.k == Event::HS_SILENT ? bkr::HS_SILENT : bkr::HS_CLOSE;
        net->deliver_to_broker(st, len); net->complete_write(st, {}, len); break;
    case Event::WR_FAIL: net->deliver_to_broker(st, size_t(e.a)); net->complete_write(st, err_of(e.e), 0); net->kill_conn(cid, err_of(e.e)); break;
    case Event::WR_SHORT: net->deliver_to_broker(st, size_t(e.a)); net->complete_write(st, {}, size_t(e.a)); break;
    case Event::TAIL_LOSS: net->deliver_to_broker(st, size_t(e.a)); net->complete_write(st, {}, len); net->kill_conn(cid, asio::error::connection_reset); break;
    case Event::WR_FAIL_LATE: net->complete_write(st, err_of(e.e), 0); net->kill_conn(cid, err_of(e.e)); break;
    case Event::WR_DELIVER_ONLY: net->deliver_to_broker(st, len); st->write_delivered = true; break;
    case Event::WR_NOREPLY: broker->set_behaviour(cid, bkr::B_NOREPLY); net->deliver_to_broker(st, len); net->complete_write(st, {}, len); break;
    case Event::WR_DELAY: broker->set_behaviour(cid, bkr::B_DELAY); net->deliver_to_broker(st, len); net->complete_write(st, {}, len); break;
    case Event::WR_BCLOSE_BEFORE: broker->set_behaviour(cid, bkr::B_NOREPLY); net->deliver_to_broker(st, len); broker->close_conn(cid); net->complete_write(st, {}, len); break;
    case Event::WR_BCLOSE_AFTER: net->deliver_to_broker(st, len); broker->close_conn(cid); net->complete_write(st, {}, len); break;
    case Event::READ_ALL: net->complete_read(st, {}, std::min(c->b2c.size(), st->read_cap)); break;
    case Event::RD_CHUNK: net->complete_read(st, {}, size_t(e.a)); break;
    case Event::RD_CUT: if (e.a > 0) { net->complete_read(st, {}, size_t(e.a)); net->kill_conn(cid, err_of(e.e)); } else { net->kill_conn(cid, err_of(e.e)); net->complete_read(st, err_of(e.e), 0); } break;
    case Event::RD_LOSS: net->kill_conn(cid, err_of(e.e)); net->complete_read(st, err_of(e.e), 0); break;
    case Event::READ_ERR: net->complete_read(st, c->dead_ec, 0); break;
    case Event::READ_EOF: net->complete_read(st, asio::error::eof, 0); break;
    case Event::SHUTDOWN_OK: net->complete_shutdown(st, {}); break;
    case Event::SHUTDOWN_HANG: st->shutdown_hung = true; break;
    case Event::WRITE_HANG: st->write_hung = true; hung_streams.insert(st->id); env_deadlines.emplace_back(now() + 45 * 1000000000LL, st->id); if (cid >= 0) broker->set_behaviour(cid, bkr::B_NOREPLY); break;   // nothing of it reaches the broker; the peer has gone quiet
    case Event::RELEASE: broker->release_held(e.a); break;
    case Event::APP: { for (;;) { const Action& a = sc.script[script_pos++]; do_action(a, false); if (!a.chain || script_pos >= sc.script.size()) break; } break; }
    case Event::TIME: { auto t = next_timer(); if (t && *t > now()) vclock::set_ns(*t);
        for (auto& d : env_deadlines) { auto& hs = net->streams[d.second]; if (d.first <= now() && hs->write_parked && hs->write_hung) { tr("  (hung write on s" + std::to_string(hs->id) + " gives up: timed out)"); hs->write_hung = false; int hc = hs->conn; net->complete_write(hs, asio::error::timed_out, 0); if (hc >= 0) net->kill_conn(hc, asio::error::timed_out); } }
        break; }
    case Event::INJECT: injected = true; do_action(*sc.inject, false); for (auto& more : sc.inject_more) do_action(more, false); break;
    case Event::RESOLVE_DONE: vclock::dns_release(false); break;
    case Event::RESOLVE_FAIL: vclock::dns_release(true); break;
    default: break;
    }
}

static std::string action_str(const Action& a) {
    static const char* n[] = {"RUN", "PUB", "SUB", "UNSUB", "RECV", "DISC", "CANCEL", "DESTROY", "MOVE_ASSIGN", "SIGNAL", "BARRIER", "WAIT_HS", "BPUB", "REAUTH", "MARK_STOP", "RERUN_CHECK", "KILLCONN", "BRAW", "PUBMANY", "BWAIT", "NOP"};
    std::string s = n[a.k]; if (a.k == Action::PUB || a.k == Action::BPUB) s += " q" + std::to_string(a.qos) + " tag" + std::to_string(a.tag); if (a.k == Action::SIGNAL) s += " op" + std::to_string(a.target_op) + " type" + std::to_string(a.sig_type);
    return s;
}

void World::on_op_complete(int id) {
    OpRec& o = ops[id];
    o.read_at_done.clear(); for (auto& c : net->conns) o.read_at_done.push_back(c.bytes_b2c_read);
    o.completions++; o.t_done = now(); o.done_in_same_step = (o.step_init == step_no); o.wire_mark_done = broker->wire.size(); o.wlog_mark_done = net->wlog.size(); o.inside_initiation = (initiating_op == id); o.inside_other_handler = running_handler_of >= 0;
    tr("complete op" + std::to_string(id) + " ec=" + (o.ec ? o.ec.message() : "ok") + (o.rc >= 0 ? " rc=" + std::to_string(o.rc) : ""));
    if (o.completions == 1) {
        auto it = sc.on_complete.find(id);
        if (it != sc.on_complete.end() && !in_epilogue) { int saved = running_handler_of; running_handler_of = id; for (auto& a : it->second) do_action(a, true); running_handler_of = saved; }
        if (o.kind == Action::RECV && o.tag > 1 && client && client->alive() && o.ec != asio::error::operation_aborted) { Action a; a.k = Action::RECV; a.tag = o.tag - 1; int saved = running_handler_of; running_handler_of = id; initiate(a); running_handler_of = saved; }
    }
}

void World::initiate(const Action& a) {
    int id = int(ops.size()); ops.emplace_back(); OpRec& o = ops.back();
    o.id = id; o.kind = a.k; o.qos = a.qos; o.tag = a.tag; o.retain = a.retain; o.topic = a.topic; o.payload = a.payload; o.props = a.props; o.filters = a.filters;
    o.t_init = now(); o.wire_mark = broker->wire.size(); o.expect_reject = a.expect_reject; o.expect_ec = a.expect_ec; o.epoch = epoch; o.after_stop = net->stop_marker;
    uint64_t bytes = 0; for (auto& c : net->conns) bytes += c.bytes_c2b; o.bytes_written_at_init = bytes; o.op_seq_init = net->op_seq; o.out_volume_before = out_volume(); o.step_init = step_no;
    if (a.expect_reject) { auto pk = client->peek(); o.lowest_free_id_before = pk.lowest_free_id; o.connack_snapshot = client->connack_props(); }
    asio::cancellation_slot slot;
    if (a.with_slot) { o.sig = std::make_shared<asio::cancellation_signal>(); slot = o.sig->slot(); }
    if (a.k == Action::RECV) o.recv_seq = recv_counter++;
    if (a.k == Action::DISC) o.qos = a.rc;      // requested reason code
    int saved = initiating_op; initiating_op = id;
    switch (a.k) {
    case Action::RUN: client->run([this, id](error_code ec) { ops[id].ec = ec; on_op_complete(id); }, slot); break;
    case Action::PUB: client->publish(a.qos, a.topic, a.payload, a.retain, a.props, [this, id](error_code ec, int rc, ref::Props p) { ops[id].ec = ec; ops[id].rc = rc; ops[id].rprops = std::move(p); on_op_complete(id); }, slot); break;
    case Action::SUB: client->subscribe(a.filters, a.props, [this, id](error_code ec, std::vector<uint8_t> rcs, ref::Props p) { ops[id].ec = ec; ops[id].rcs = std::move(rcs); ops[id].rprops = std::move(p); on_op_complete(id); }, slot); break;
    case Action::UNSUB: { std::vector<std::string> ts; for (auto& f : a.filters) ts.push_back(f.first);
        client->unsubscribe(ts, a.props, [this, id](error_code ec, std::vector<uint8_t> rcs, ref::Props p) { ops[id].ec = ec; ops[id].rcs = std::move(rcs); ops[id].rprops = std::move(p); on_op_complete(id); }, slot); break; }
    case Action::RECV: client->receive([this, id](error_code ec, std::string t, std::string pl, ref::Props p) { ops[id].ec = ec; ops[id].r_topic = std::move(t); ops[id].r_payload = std::move(pl); ops[id].rprops = std::move(p); on_op_complete(id); }, slot); break;
    case Action::DISC: client->disconnect(a.rc, a.props, [this, id](error_code ec) { ops[id].ec = ec; stopped_phase = true; t_stop = now(); net->stop_marker = true; on_op_complete(id); }, slot); epoch++; break;
    default: break;
    }
    initiating_op = saved;
    if (ops[id].expect_reject) { auto pk = client->peek(); ops[id].lowest_free_id_after = pk.lowest_free_id; }
    uint64_t bytes2 = 0; for (auto& c : net->conns) bytes2 += c.bytes_c2b; ops[id].bytes_written_after_init = bytes2;
}

void World::do_action(const Action& a, bool from_handler) {
    tr(std::string(from_handler ? "app(in handler): " : "app: ") + action_str(a));
    if (!client || (!client->alive() && a.k != Action::BPUB && a.k != Action::BARRIER && a.k != Action::NOP && a.k != Action::KILLCONN && a.k != Action::BRAW && a.k != Action::BWAIT)) return;
    switch (a.k) {
    case Action::RUN: if (running) { tr("  (skipped: client is already running)"); break; } running = true; net->stop_marker = false; stopped_phase = false; initiate(a); break;
    case Action::DISC: running = false; stop_times.push_back(now()); stop_seqs.push_back(net->op_seq); initiate(a); break;
    case Action::PUB: case Action::SUB: case Action::UNSUB: case Action::RECV: initiate(a); break;
    case Action::CANCEL: running = false; stop_times.push_back(now()); stop_seqs.push_back(net->op_seq); client->cancel(); epoch++; net->stop_marker = true; stopped_phase = true; t_stop = now(); break;
    case Action::DESTROY: running = false; stop_times.push_back(now()); stop_seqs.push_back(net->op_seq); client->destroy(); epoch++; net->stop_marker = true; stopped_phase = true; t_stop = now(); break;
    case Action::MOVE_ASSIGN: running = false; stop_times.push_back(now()); stop_seqs.push_back(net->op_seq); client->move_assign_fresh(); client->brokers(sc.hosts, sc.port); client->credentials(sc.client_id, sc.user, sc.pass); client->keep_alive(sc.keep_alive); epoch++; net->stop_marker = true; stopped_phase = true; t_stop = now(); break;
    case Action::SIGNAL: if (a.sig_type == 4 && a.target_op >= 0 && a.target_op < int(ops.size()) && ops[a.target_op].sig && ops[a.target_op].completions == 0 && ops[a.target_op].kind != Action::RECV) {
            // a terminal signal on any operation cancels the whole client (its slot handler calls client_service::cancel())
            running = false; stop_times.push_back(now()); stop_seqs.push_back(net->op_seq); net->stop_marker = true; stopped_phase = true; t_stop = now(); epoch++; }
        if (a.target_op == -2 && !ops.empty()) { Action b = a; b.target_op = int(ops.size()) - 1; do_action(b, from_handler); break; }
        if (a.target_op >= 0 && a.target_op < int(ops.size()) && ops[a.target_op].sig && ops[a.target_op].completions == 0) { ops[a.target_op].signalled = a.sig_type; ops[a.target_op].t_signal = now();
            ops[a.target_op].sig->emit(a.sig_type == 1 ? asio::cancellation_type::total : a.sig_type == 2 ? asio::cancellation_type::partial : asio::cancellation_type::terminal); } break;
    case Action::BPUB: broker->push(a.tag, uint8_t(a.qos), a.topic, a.payload, a.props); break;
    case Action::REAUTH: client->re_authenticate(); break;
    case Action::MARK_STOP: net->stop_marker = true; break;
    case Action::PUBMANY: { for (int i = 0; i < a.n; ++i) { Action p; p.k = Action::PUB; p.qos = a.qos; p.tag = a.tag + i; p.topic = "m"; p.payload = "many-" + std::to_string(a.tag + i); initiate(p); } break; }
    case Action::BRAW: { int c = broker->live_conn(); if (c >= 0) broker->emit_raw(c, a.payload, true); break; }
    case Action::KILLCONN: { int c = broker->live_conn(); if (c >= 0) broker->close_conn(c); break; }
    default: break;
    }
    if (injected && &a == &*sc.inject) { /* appended actions are consumed through after_inject below */ }
}

int World::choose(std::vector<Event>& ev, const std::vector<int>& prefix) {
    size_t pos = choices.size(); int idx = 0;
    if (pos < prefix.size()) { idx = prefix[pos]; if (idx < 0 || idx >= int(ev.size())) { capped = true; cap_reason = "REPLAY-DIVERGENCE: choice " + std::to_string(idx) + " of " + std::to_string(ev.size()) + " at point " + std::to_string(pos); return -1; } }
    if (show_choices) { std::string l = "  choice#" + std::to_string(pos) + " -> " + std::to_string(idx) + " of ["; for (size_t i = 0; i < ev.size(); ++i) l += (i ? " | " : "") + ev[i].str(); tr(l + "]"); }
    return idx;
}

void World::run(const std::vector<int>& prefix) {
    std::vector<Event> ev; bool tail_started = false; int64_t tail_until = 0; int steps = 0;
    std::vector<Action> extra;            // after_inject actions
    size_t extra_pos = 0;
    cur_prefix = &prefix;
    drain();
    for (;;) {
        if (capped) break;
        if (stopped_phase && !stop_snap.done) take_stop_snapshot("after stop");
        enabled(ev);
        // actions scheduled after the injection behave like further script actions (default order: after network events)
        bool script_done = script_pos >= sc.script.size();
        // a WAIT_HS that can no longer be satisfied (nothing outstanding, network quiet) ends the script
        if (!script_done && (sc.script[script_pos].k == Action::WAIT_HS) && !app_action_enabled() && all_user_ops_done()) { bool net_def = false; for (auto& e : ev) if (!e.deviation && e.k != Event::APP && (e.k != Event::TIME || (running && broker->live_conn() < 0))) net_def = true;   // a running client without a connection and with a pending timer (back-off pause) may still connect
            if (!net_def) script_done = true; }
        bool has_net_default = false; for (auto& e : ev) if (!e.deviation && e.k != Event::TIME && e.k != Event::APP) has_net_default = true;
        if (injected && extra_pos < sc.after_inject.size() && script_done && !has_net_default && (!sc.inject || sc.inject->k != Action::DISC || !ops.empty() && [&]{ for (auto& o : ops) if (o.kind == Action::DISC && o.completions == 0) return false; return true; }())) { if (stopped_phase && !stop_snap.done) take_stop_snapshot("after stop"); step_no++; do_action(sc.after_inject[extra_pos++], false); drain(); continue; }
        bool broker_pending = false;   // the broker still waits for an acknowledgement of something it sent (C04 scenarios)
        if (sc.monitors & M_C04) for (auto& kv : broker->sessions) for (auto& m : kv.second.out) if (m.qos > 0 && (m.st == bkr::OutMsg::SENT || m.st == bkr::OutMsg::PUBREC_RCVD || m.st == bkr::OutMsg::QUEUED)) broker_pending = true;
        bool quiet = script_done && all_user_ops_done() && !has_net_default && !broker_pending && (!injected || extra_pos >= sc.after_inject.size());
        if (quiet) {
            if (sc.idle_tail_s > 0) { if (!tail_started) { tail_started = true; tail_until = now() + sc.idle_tail_s * 1000000000LL; }
                auto t = next_timer(); if (!t || *t > tail_until || now() >= tail_until) break; }
            else break;
        }
        if (ev.empty()) break;
        if (now() != last_now_seen) { last_now_seen = now(); last_time_change_step = steps; }
        if (++steps > sc.max_steps) {
            capped = true; cap_reason = "step cap";
            // C11 "every trigger resolved": a connection attempt ends in a connection or in a back-off wait, so time has to pass eventually
            if ((sc.monitors & M_C11) && steps - last_time_change_step >= 400)
                vio("C11:reconnect-livelock:" + sc.family(), std::to_string(steps - last_time_change_step) + " consecutive network/DNS events at one virtual instant (" + ev[0].str() + " ...): reconnect attempts keep restarting each other without a connection or a back-off wait");
            break; }
        if (now() - std::max(last_deviation_ns, vclock::BASE_NS) > sc.horizon_s * 1000000000LL && !quiet) { capped = true; cap_reason = "horizon"; break; }
        int idx = 0;
        if (ev.size() > 1 || !prefix.empty()) { idx = ev.size() > 1 ? choose(ev, prefix) : 0; if (idx < 0) break; }
        if (ev.size() > 1) { ChoiceRec cr; cr.n = int(ev.size()); cr.chosen = idx; cr.dev = ev[idx].deviation; cr.what = ev[idx].str(); cr.digest = state_digest(); choices.push_back(cr); }
        const Event e = ev[idx];
        if (e.deviation) { deviations++; last_deviation_ns = now(); }
        tr("event: " + e.str() + (e.deviation ? "  (deviation)" : ""));
        step_no++;
        apply(e);
        drain();
        for (auto& o : ops) if (o.step_init == step_no && o.out_volume_after == 0) o.out_volume_after = out_volume();
    }
    epoch_at_quiet = epoch;
    if (stopped_phase && !stop_snap.done) take_stop_snapshot("after stop");
    epilogue();
    run_monitors(*this);
}

uint64_t World::out_volume() const {
    uint64_t v = 0; for (auto& c : net->conns) v += c.bytes_c2b; for (auto& st : net->streams) if (st->write_parked && !st->write_delivered) v += st->write_data.size(); return v;
}
void World::take_stop_snapshot(const std::string& what) {
    // a lookup parked in the DNS gate is work asio cannot cancel (getaddrinfo runs to its end): let it finish first
    for (int guard = 0; sc.gate_dns && vclock::dns_pending() > 0 && guard < 16; ++guard) { tr("(releasing a parked DNS lookup before judging the drain)"); vclock::dns_release(false); drain(); }
    if (!stopped_phase) return;   // a completion handler has run the client again meanwhile: its work is legitimate
    stop_snap.done = true; stop_snap.parked = net->parked_count(); stop_snap.timers = pending_timers(); stop_snap.ioc_stopped = ioc->stopped(); stop_snap.t = now(); stop_snap.what = what;
    stop_snap.incomplete = 0; newer_pending_at_snap = 0; for (auto& o : ops) if (o.completions == 0) { if (o.epoch == 0) stop_snap.incomplete++; else newer_pending_at_snap++; }
}

void World::epilogue() {
    in_epilogue = true; t_epilogue = now();
    for (auto& st : net->streams) if (st->open && st->closed_ns < 0 && !st->shut) open_before_epilogue.insert(st->id);
    if (!capped && client && client->alive() && all_user_ops_done()) { bool all = true; for (auto& o : ops) if (o.completions == 0 && o.kind != Action::RUN && o.kind != Action::RECV) all = false; if (all) { auto p = client->peek(); if (p.available) free_ids_at_quiet = p.free_ids_total; } }
    if (capped && cap_reason.rfind("REPLAY", 0) == 0) return;
    if (!sc.epilogue_cancel || !client || !client->alive()) { drain_checked = false; }
    else { tr("epilogue: cancel()"); client->cancel(); epoch++; net->stop_marker = true; }
    drain();
    for (int guard = 0; sc.gate_dns && vclock::dns_pending() > 0 && guard < 16; ++guard) { vclock::dns_release(false); drain(); }
    // without advancing the clock the context must have run out of work (C05)
    drain_result.done = true; drain_result.parked = net->parked_count(); drain_result.timers = pending_timers(); drain_result.ioc_stopped = ioc->stopped();
    for (auto& o : ops) if (o.completions == 0) drain_result.incomplete++;
}

static inline void mix(uint64_t& h, uint64_t v) { h ^= v + 0x9e3779b97f4a7c15ull + (h << 6) + (h >> 2); }
uint64_t World::state_digest() const {
    uint64_t h = 1469598103934665603ull;
    for (auto& o : ops) { mix(h, o.completions); mix(h, uint64_t(o.ec.value())); mix(h, uint64_t(o.rc + 1)); }
    mix(h, script_pos); mix(h, injected);
    for (auto& c : net->conns) { mix(h, c.bytes_c2b); mix(h, c.bytes_b2c_read); mix(h, c.b2c.size()); mix(h, c.dead); mix(h, c.broker_closed); mix(h, c.client_closed); }
    for (auto& s : net->streams) { mix(h, (s->connect_parked << 0) | (s->read_parked << 1) | (s->write_parked << 2) | (s->shutdown_parked << 3) | (s->open << 4) | (s->connected << 5) | (s->write_delivered << 6) | (s->connect_hung << 7)); mix(h, s->write_data.size()); }
    mix(h, broker->wire.size()); for (auto& c : broker->cs) { mix(h, c.inflight.size()); mix(h, c.behaviour); mix(h, c.held.size()); }
    if (client && client->alive()) { auto p = client->peek(); if (p.available) { mix(h, p.quota); mix(h, p.write_queue); mix(h, p.reply_waiters); mix(h, p.fast_replies); mix(h, p.mutex_locked); mix(h, p.mutex_waiting); mix(h, p.session_flags); mix(h, p.lowest_free_id); } }
    auto self = const_cast<World*>(this); auto t = self->next_timer(); mix(h, t ? uint64_t(*t - now()) : ~0ull); mix(h, self->pending_timers());
    return h;
}
std::string World::reaction_signature() const {
    std::string s;
    for (auto& e : broker->wire) { if (!e.c2b) continue; s += e.malformed ? "M" : ref::ptype_name(e.pkt.type); s += "#" + std::to_string(e.pkt.pid) + (e.pkt.type == ref::PUBLISH && e.pkt.dup() ? "d" : "") + (e.pkt.has_rc ? "r" + std::to_string(e.pkt.rc) : "") + ","; }
    s += "|"; for (auto& o : ops) s += std::to_string(o.completions) + ":" + std::to_string(o.ec.value()) + ":" + std::to_string(o.rc) + ",";
    return s;
}
uint64_t World::outcome_digest() const {
    uint64_t h = 1469598103934665603ull;
    for (auto& e : broker->wire) { mix(h, e.conn); mix(h, e.c2b); mix(h, e.pkt.type); mix(h, e.pkt.flags); mix(h, e.pkt.pid); mix(h, e.malformed); mix(h, std::hash<std::string>()(e.pkt.payload)); }
    for (auto& o : ops) { mix(h, o.completions); mix(h, uint64_t(o.ec.value())); mix(h, uint64_t(o.rc + 1)); for (auto c : o.rcs) mix(h, c); mix(h, std::hash<std::string>()(o.r_payload)); }
    return h;
}

} // namespace e1
