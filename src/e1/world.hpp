// One execution's world: virtual clock, simulated network, reference broker, real client,
// scripted application, and the event loop that applies one environment decision at a time.
#pragma once
#include <set>
#include <deque>
#include <cstdlib>
#include "broker.hpp"
#include "client_iface.hpp"
#include "sim.hpp"
#include "vclock.hpp"
#include <map>
#include <memory>
#include <optional>

namespace e1 {
namespace asio = boost::asio;
using error_code = boost::system::error_code;

// ------------------------------------------------------------------ fault / reorder families
enum Fam : uint32_t {
    F_CONN = 1u << 0,      // connect refused / silent
    F_HS = 1u << 1,        // handshake: CONNACK rc>=0x80 / malformed / silent / close
    F_WR = 1u << 2,        // write fails after k bytes reached the broker
    F_WRSHORT = 1u << 3,   // successful short write
    F_TAIL = 1u << 4,      // successful write, tail never reaches the broker, connection dies
    F_RDCUT = 1u << 5,     // read delivers k bytes then the connection dies
    F_CHUNK = 1u << 6,     // read returns a prefix only
    F_LOSS = 1u << 7,      // idle connection dies
    F_REORDER = 1u << 8,   // non-default enabled event first (incl. deliver-before-complete, timer first, app first)
    F_NOREPLY = 1u << 9,   // broker withholds replies for the rest of the connection
    F_DELAY = 1u << 10,    // broker holds replies back until released
    F_BCLOSE = 1u << 11,   // broker closes before / after replying
    F_SHUT = 1u << 12,     // async_shutdown of the generic stream never completes
    F_BYTE = 1u << 13,     // byte-granular cut positions (thorough)
    F_INJECT = 1u << 14,   // scenario's injected application action at any choice point
    F_FINE = 1u << 15,     // handler-granular injection points
    F_FINENET = 1u << 16,  // handler-granular network events: another enabled completion is posted between two handlers of a drain
};

struct Action {
    enum K { RUN, PUB, SUB, UNSUB, RECV, DISC, CANCEL, DESTROY, MOVE_ASSIGN, SIGNAL, BARRIER, WAIT_HS, BPUB, REAUTH, MARK_STOP, RERUN_CHECK, KILLCONN, BRAW, PUBMANY, BWAIT, NOP } k = NOP;
    int qos = 0, tag = 0; bool retain = false; std::string topic, payload; ref::Props props;
    std::vector<std::pair<std::string, uint8_t>> filters;
    int target_op = -1; int sig_type = 1;      // SIGNAL: op index in App::ops; 1 total, 2 partial, 4 terminal
    uint8_t rc = 0; int n = 0;                  // DISC rc; WAIT_HS count; RECV repeat count (re-arming)
    bool with_slot = false;                     // bind a cancellation slot to the op
    bool expect_reject = false;                 // request that must be rejected locally (C15/C16)
    int expect_ec = 0;
    bool chain = false;                         // the next script action follows in the same step (no handler runs in between)
};

struct OpRec {
    int id = -1; Action::K kind = Action::NOP; int qos = 0, tag = 0; bool retain = false; std::string topic, payload; ref::Props props;
    std::vector<std::pair<std::string, uint8_t>> filters;
    int64_t t_init = 0, t_done = -1; int completions = 0; error_code ec; int rc = -1; ref::Props rprops; std::vector<uint8_t> rcs;
    std::string r_topic, r_payload;
    bool inside_initiation = false, inside_other_handler = false; int signalled = 0; int64_t t_signal = -1;
    std::shared_ptr<asio::cancellation_signal> sig;
    size_t wire_mark = 0, wire_mark_done = 0, wlog_mark_done = 0; int conn_writes_at_init = 0; bool expect_reject = false; int expect_ec = 0; int lowest_free_id_before = -1, lowest_free_id_after = -1;
    size_t bytes_written_at_init = 0, bytes_written_after_init = 0; ref::Props connack_snapshot; bool had_connack = false;
    size_t op_seq_init = 0; uint64_t out_volume_before = 0, out_volume_after = 0; bool done_in_same_step = false; int step_init = 0;
    std::vector<uint64_t> read_at_done;         // per connection: bytes the client had read when the handler ran
    int epoch = 0;                              // client incarnation (bumped by CANCEL / DISC / MOVE_ASSIGN)
    bool after_stop = false;
    int recv_seq = -1;
};

struct ChoiceRec { int n = 0, chosen = 0; bool dev = false; std::string what; uint64_t digest = 0; };
struct Vio { std::string sig, detail; };

struct Scenario;   // scenarios.hpp

struct Event {
    enum K { NONE, CONNECT_OK, WRITE_OK, WRITE_DEAD, WRITE_COMPLETE_LATE, READ_ALL, READ_ERR, READ_EOF, SHUTDOWN_OK, RELEASE, APP, TIME,
             CONNECT_REFUSED, CONNECT_HANG, HS_RC, HS_MALFORMED, HS_SILENT, HS_CLOSE, WR_FAIL, WR_SHORT, TAIL_LOSS, WR_DELIVER_ONLY, WR_FAIL_LATE,
             WR_NOREPLY, WR_DELAY, WR_BCLOSE_BEFORE, WR_BCLOSE_AFTER, RD_CHUNK, RD_CUT, RD_LOSS, SHUTDOWN_HANG, INJECT, CONTINUE, RESOLVE_DONE, RESOLVE_FAIL, WRITE_HANG } k = NONE;
    int stream = -1; int a = 0; int e = 0; bool deviation = false;
    std::string str() const;
};

class World {
public:
    const Scenario& sc;
    std::unique_ptr<sim::Net> net; std::unique_ptr<asio::io_context> ioc; std::unique_ptr<bkr::Broker> broker; std::unique_ptr<cli::IClient> client;
    std::deque<OpRec> ops;   // deque: references stay valid when a completion handler initiates further operations
    size_t script_pos = 0; bool injected = false; int epoch = 0;
    int handler_depth = 0; int initiating_op = -1; int running_handler_of = -1;
    std::vector<ChoiceRec> choices; std::vector<Vio> vios; std::vector<std::string> trace;
    int deviations = 0; int64_t last_deviation_ns = 0; bool capped = false; std::string cap_reason;
    int recv_counter = 0; uint64_t handlers_run = 0;
    bool stopped_phase = false; int64_t t_stop = -1;
    bool drain_checked = false;
    // results of the C05 drain check
    struct DrainResult { bool done = false; bool ioc_stopped = false; int parked = 0; int timers = 0; int incomplete = 0; int64_t t = 0; std::string what; } drain_result, stop_snap;
    std::string reaction_signature() const;      // client->broker packets + op results (C19 chunking independence)
    bool releasing_dns = false;
    bool running = false; std::vector<int64_t> stop_times; std::vector<size_t> stop_seqs; int newer_pending_at_snap = 0;
    const std::vector<int>* cur_prefix = nullptr; int step_no = 0; int epoch_at_quiet = 0;
    uint64_t out_volume() const;
    void take_stop_snapshot(const std::string& what);

    explicit World(const Scenario& s);
    ~World();
    void run(const std::vector<int>& prefix);           // executes the whole scenario following prefix, then defaults
    // helpers used by monitors
    bool all_user_ops_done() const;
    int64_t now() const { return vclock::now_ns(); }
    void tr(const std::string& s);
    void vio(const std::string& sig, const std::string& detail) { vios.push_back({sig, detail}); }
    uint64_t state_digest() const;
    uint64_t outcome_digest() const;
private:
    void drain();
    bool resolver_busy();
    std::optional<int64_t> next_timer();
    int pending_timers();
    void enabled(std::vector<Event>& ev);
    void apply(const Event& e);
    bool app_action_enabled() const;
    int64_t last_now_seen = -1; int last_time_change_step = 0;
    std::set<int> open_before_epilogue;   // streams still open (not closed, not shut down) when the epilogue's cancel() was about to run
    std::set<int> hung_streams;   // streams on which a write stalled at some point (wr-hang): nothing more can be sent on them
    std::vector<std::pair<int64_t, int>> env_deadlines;   // (virtual time, stream): a hung write gives up with timed_out (the transport's own timeout)
    int64_t t_epilogue = -1; int free_ids_at_quiet = -1;   // identifiers free in the allocator when the run went quiescent (all exchanges completed), -1 = not taken
    bool in_epilogue = false; bool show_choices = getenv("SIMNET_SHOW_CHOICES") != nullptr;
    void do_action(const Action& a, bool from_handler);
    void initiate(const Action& a);
    void on_op_complete(int op);
    void epilogue();
    std::vector<int> cut_positions(const std::string& data, bool byte_level) const;
    int choose(std::vector<Event>& ev, const std::vector<int>& prefix);
};

} // namespace e1
