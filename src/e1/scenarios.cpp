// Scenario sets and monitors of the simnet engine (DESIGN.md section 6).
#include "scenarios.hpp"
#include <algorithm>
#include <set>

namespace e1 {

// ------------------------------------------------------------------ builders
static Action A(Action::K k) { Action a; a.k = k; return a; }
static Action RUN() { return A(Action::RUN); }
static Action PUB(int qos, int tag, bool retain = false, ref::Props props = {}) { Action a = A(Action::PUB); a.qos = qos; a.tag = tag; a.retain = retain; a.topic = "t/" + std::to_string(tag); a.payload = "payload-" + std::to_string(tag); a.props = std::move(props); return a; }
static Action SUB(std::vector<std::pair<std::string, uint8_t>> f, ref::Props props = {}) { Action a = A(Action::SUB); a.filters = std::move(f); a.props = std::move(props); return a; }
static Action UNSUB(std::vector<std::string> f, ref::Props props = {}) { Action a = A(Action::UNSUB); for (auto& x : f) a.filters.emplace_back(x, 0); a.props = std::move(props); return a; }
static Action RECV(int n) { Action a = A(Action::RECV); a.tag = n; return a; }
static Action BARRIER() { return A(Action::BARRIER); }
static Action WAIT_HS(int n) { Action a = A(Action::WAIT_HS); a.n = n; return a; }
static Action BPUB(int qos, int tag, ref::Props props = {}) { Action a = A(Action::BPUB); a.qos = qos; a.tag = tag; a.topic = "b/" + std::to_string(tag); a.payload = "bmsg-" + std::to_string(tag); a.props = std::move(props); return a; }
static Action DISC(uint8_t rc = 0, ref::Props props = {}) { Action a = A(Action::DISC); a.rc = rc; a.props = std::move(props); return a; }
static Action CANCEL() { return A(Action::CANCEL); }
static Action SIGNAL(int op, int type) { Action a = A(Action::SIGNAL); a.target_op = op; a.sig_type = type; return a; }
static Action slot(Action a) { a.with_slot = true; return a; }

static const uint32_t RECOVERABLE = F_CONN | F_HS | F_WR | F_TAIL | F_RDCUT | F_LOSS | F_BCLOSE | F_NOREPLY;
static const uint32_t SCHED = F_REORDER | F_CHUNK | F_WRSHORT | F_DELAY;

static Scenario base(const std::string& name, std::vector<Action> script, uint32_t fam, int D, uint32_t mon) {
    Scenario s; s.name = name; s.script = std::move(script); s.fam = fam; s.D = D; s.monitors = mon | M_C17 | M_C08 | M_C10; return s;
}

// ------------------------------------------------------------------ monitor helpers
static bool is_user_op(const OpRec& o) { return o.kind == Action::PUB || o.kind == Action::SUB || o.kind == Action::UNSUB; }
static std::string opname(const OpRec& o) { static const char* n[] = {"run", "publish", "subscribe", "unsubscribe", "receive", "disconnect"}; return o.kind <= Action::DISC ? n[o.kind] : "?"; }

struct Wire { const std::vector<bkr::WireEvt>& w; };

static bool publish_matches(const ref::Packet& p, const OpRec& o) {
    return p.type == ref::PUBLISH && p.topic == o.topic && p.payload == o.payload && p.qos() == o.qos && p.retain() == o.retain && ref::props_equal(p.props, o.props);
}

// C01 ---------------------------------------------------------------------------------------
static void mon_c01(World& w) {
    auto& wire = w.broker->wire; const std::string& sn = w.sc.name;
    for (auto& o : w.ops) {
        if (o.kind != Action::PUB || o.qos == 0 || o.completions == 0 || o.ec) continue;
        size_t lim = o.wire_mark_done; bool ok = false, saw_publish = false, saw_same_payload = false; std::string why = "no PUBLISH with the caller's fields reached the broker before the completion";
        for (size_t i = 0; i < lim && !ok; ++i) {
            auto& e = wire[i]; if (!e.c2b || e.malformed || e.pkt.type != ref::PUBLISH) continue;
            if (e.pkt.payload == o.payload) saw_same_payload = true;
            if (!publish_matches(e.pkt, o)) continue;
            saw_publish = true; uint16_t pid = e.pkt.pid; why = "the broker had not sent the final acknowledgement for the PUBLISH's packet id before the completion";
            for (size_t j = i + 1; j < lim && !ok; ++j) {
                auto& a = wire[j]; if (a.c2b || a.malformed || a.raw_hostile || !a.pkt.has_pid || a.pkt.pid != pid) continue;
                uint8_t arc = a.pkt.has_rc ? a.pkt.rc : 0;
                if (o.qos == 1 && a.pkt.type == ref::PUBACK) {
                    if (o.rc != arc) why = "handler reason code differs from the PUBACK's"; else if (!ref::props_equal(o.rprops, a.pkt.props)) why = "handler properties differ from the PUBACK's"; else ok = true;
                }
                if (o.qos == 2 && a.pkt.type == ref::PUBREC) {
                    if (arc >= 0x80) { if (o.rc == arc) ok = true; else why = "handler reason code differs from the failing PUBREC's"; continue; }
                    for (size_t k = j + 1; k < lim && !ok; ++k) { auto& r = wire[k]; if (!r.c2b || r.malformed || r.pkt.type != ref::PUBREL || r.pkt.pid != pid) continue;
                        for (size_t l = k + 1; l < lim && !ok; ++l) { auto& c = wire[l]; if (c.c2b || c.malformed || c.raw_hostile || c.pkt.type != ref::PUBCOMP || c.pkt.pid != pid) continue;
                            uint8_t crc = c.pkt.has_rc ? c.pkt.rc : 0;
                            if (o.rc != crc) why = "handler reason code differs from the PUBCOMP's"; else if (!ref::props_equal(o.rprops, c.pkt.props)) why = "handler properties differ from the PUBCOMP's"; else ok = true; } }
                }
            }
        }
        if (!ok) { std::string kind = !saw_publish ? (saw_same_payload ? "publish-fields-differ" : "success-without-publish") : (why.find("differ") != std::string::npos ? "wrong-result" : "success-without-ack");
            w.vio("C01:" + kind + ":q" + std::to_string(o.qos) + ":" + sn, "async_publish (tag " + std::to_string(o.tag) + ") completed without error but " + why); }
    }
}

// C02 ---------------------------------------------------------------------------------------
static bool transport_error(const error_code& ec) {
    return ec == asio::error::eof || ec == asio::error::connection_reset || ec == asio::error::broken_pipe || ec == asio::error::not_connected || ec == asio::error::timed_out ||
           ec == asio::error::connection_refused || ec == asio::error::connection_aborted || ec == asio::error::try_again || ec == asio::error::no_recovery || ec == asio::error::bad_descriptor;
}
static void mon_c02(World& w, const char* prop) {
    const std::string& sn = w.sc.name; std::string P = prop;
    if (w.capped && w.cap_reason.rfind("REPLAY", 0) == 0) return;
    for (auto& o : w.ops) {
        if (!is_user_op(o) || o.expect_reject) continue;
        if (o.kind == Action::PUB && o.qos == 0) { if (o.completions && transport_error(o.ec) && o.epoch == w.ops.back().epoch) {} continue; }
        bool cancelled_by_caller = o.signalled != 0 || o.epoch != (w.epoch - (w.sc.epilogue_cancel ? 1 : 0)) ;
        if (cancelled_by_caller) continue;
        if (o.completions == 0 || (o.t_done >= 0 && o.ec == asio::error::operation_aborted && w.drain_result.done && o.completions == 1 && o.wire_mark_done == w.broker->wire.size() && w.capped)) {
            w.vio(P + ":not-completed:" + opname(o) + ":" + sn, "accepted " + opname(o) + " (tag " + std::to_string(o.tag) + ") had not completed " + (w.capped ? "when the " + w.cap_reason + " was reached" : "although no event is enabled any more") + " after a fault-free suffix");
            continue; }
        if (o.ec == asio::error::operation_aborted && o.completions == 1) {
            // completed by the epilogue's cancel(): it was still outstanding at the end of the suffix
            w.vio(P + ":not-completed:" + opname(o) + ":" + sn, "accepted " + opname(o) + " (tag " + std::to_string(o.tag) + ") was still outstanding at the end of the fault-free suffix"); continue; }
        if (o.ec) w.vio(P + ":error-completion:" + opname(o) + ":" + o.ec.message() + ":" + sn, "accepted " + opname(o) + " completed with " + o.ec.message() + " instead of being retried");
    }
    if (P != "C02") return;
    // retransmissions keep their packet identifier while the acknowledgement is outstanding
    auto& wire = w.broker->wire;
    for (auto& o : w.ops) {
        if (!is_user_op(o) || (o.kind == Action::PUB && o.qos == 0)) continue;
        int pid = -1; size_t lim = o.completions ? o.wire_mark_done : wire.size();
        for (size_t i = 0; i < lim; ++i) { auto& e = wire[i]; if (!e.c2b || e.malformed) continue; bool mine = false;
            if (o.kind == Action::PUB && e.pkt.type == ref::PUBLISH && e.pkt.payload == o.payload) mine = true;
            if (o.kind == Action::SUB && e.pkt.type == ref::SUBSCRIBE && e.pkt.filters == o.filters) mine = true;
            if (o.kind == Action::UNSUB && e.pkt.type == ref::UNSUBSCRIBE && e.pkt.filters.size() == o.filters.size() && e.pkt.filters[0].first == o.filters[0].first) mine = true;
            if (!mine) continue;
            if (pid < 0) pid = e.pkt.pid; else if (pid != e.pkt.pid) { w.vio("C02:retransmit-new-id:" + opname(o) + ":" + sn, "retransmission of " + opname(o) + " (tag " + std::to_string(o.tag) + ") carries packet id " + std::to_string(e.pkt.pid) + " instead of " + std::to_string(pid)); break; } }
    }
}

// C03 ---------------------------------------------------------------------------------------
static std::vector<std::pair<size_t, std::string>> packets_in(const std::string& d) {   // (offset, raw) for each complete packet in a write
    std::vector<std::pair<size_t, std::string>> v; size_t i = 0;
    while (i < d.size()) { size_t j = i + 1; uint32_t val = 0; int sh = 0; bool ok = false; while (j < d.size() && sh <= 21) { uint8_t c = uint8_t(d[j++]); val |= uint32_t(c & 0x7F) << sh; sh += 7; if (!(c & 0x80)) { ok = true; break; } }
        if (!ok || j + val > d.size()) break; v.emplace_back(i, d.substr(i, j + val - i)); i = j + val; }
    return v;
}
static void mon_c03(World& w) {
    const std::string& sn = w.sc.name;
    for (auto& o : w.ops) {
        if (o.kind != Action::PUB || o.qos == 0) continue;
        // transmissions of this message as the client wrote them (write log), in order
        struct Tx { bool ok; bool dup; std::string raw; uint16_t pid; size_t wire_mark; }; std::vector<Tx> txs; std::string canon;
        size_t first_pubrel_mark = SIZE_MAX;
        for (auto& wl : w.net->wlog) for (auto& pk : packets_in(wl.data)) {
            auto r = ref::decode(pk.second); if (r.st != ref::D_OK) continue;
            if (r.pkt.type == ref::PUBLISH && r.pkt.payload == o.payload) { std::string c = pk.second; c[0] = char(c[0] & ~0x08); if (canon.empty()) canon = c;
                txs.push_back({wl.ok, r.pkt.dup(), c, r.pkt.pid, wl.wire_mark}); }
        }
        if (txs.empty()) continue;
        for (size_t k = 0; k < txs.size(); ++k) {
            if (txs[k].raw != canon) { w.vio("C03:retransmission-differs:" + sn, "a retransmitted PUBLISH (tag " + std::to_string(o.tag) + ") is not byte-identical to the first transmission (beyond the DUP bit)"); break; }
            if (k == 0 && txs[k].dup) w.vio("C03:first-transmission-dup:" + sn, "first transmission of PUBLISH (tag " + std::to_string(o.tag) + ") has DUP=1");
            bool earlier_ok = false; for (size_t j = 0; j < k; ++j) if (txs[j].ok) earlier_ok = true;
            if (k > 0 && earlier_ok && !txs[k].dup) { w.vio("C03:retransmission-without-dup:" + sn, "PUBLISH (tag " + std::to_string(o.tag) + ") retransmitted with DUP=0 although an earlier transmission had been written successfully"); break; }
        }
        if (o.qos != 2) continue;
        // once a PUBREL for the message's id has been handed to the transport, no PUBLISH of the message again
        uint16_t pid = txs[0].pid; bool pubrel_seen = false; size_t idx = 0;
        for (auto& wl : w.net->wlog) { for (auto& pk : packets_in(wl.data)) { auto r = ref::decode(pk.second); if (r.st != ref::D_OK) continue; idx++;
            if (r.pkt.type == ref::PUBLISH && r.pkt.payload == o.payload) { if (pubrel_seen) { w.vio("C03:publish-after-pubrel:" + sn, "QoS 2 PUBLISH (tag " + std::to_string(o.tag) + ") was transmitted again after its PUBREL had been sent"); goto next_op; } }
            else if (r.pkt.type == ref::PUBREL && r.pkt.pid == pid && !txs.empty()) { bool after_first = false; for (auto& wl2 : w.net->wlog) { if (&wl2 == &wl) break; if (wl2.data.find(o.payload) != std::string::npos) after_first = true; } if (after_first || wl.data.find(o.payload) != std::string::npos) pubrel_seen = true; } } }
        next_op:;
        (void)first_pubrel_mark;
    }
}

// C06 ---------------------------------------------------------------------------------------
static void mon_c06(World& w) {
    const std::string& sn = w.sc.name; auto& wire = w.broker->wire;
    std::map<std::string, int> op_of; for (auto& o : w.ops) if (o.kind == Action::PUB) op_of[o.payload] = o.id;
    for (size_t c = 0; c < w.broker->cs.size(); ++c) {
        bool rm_announced = false; for (auto& q : w.broker->cs[c].connack_props_sent) if (q.id == 0x21) rm_announced = true;
        int last_q = -1, last_all = -1;
        for (auto& e : wire) { if (!e.c2b || e.malformed || e.conn != int(c) || e.pkt.type != ref::PUBLISH) continue; auto it = op_of.find(e.pkt.payload); if (it == op_of.end()) continue; int id = it->second;
            if (e.pkt.qos() > 0) { if (id < last_q) { w.vio("C06:qos-order:" + sn, "on connection " + std::to_string(c) + " the QoS>0 PUBLISH of op " + std::to_string(id) + " was written after that of the later op " + std::to_string(last_q)); return; } last_q = id; }
            if (!rm_announced) { if (id < last_all) { w.vio("C06:order-no-receive-maximum:" + sn, "no Receive Maximum announced, yet PUBLISH of op " + std::to_string(id) + " was written after that of op " + std::to_string(last_all)); return; } last_all = id; } }
    }
}

// C08 (wire half) -----------------------------------------------------------------------------
static void mon_c08(World& w) {
    const std::string& sn = w.sc.name; auto& wire = w.broker->wire;
    // which op does a client packet belong to
    auto owner = [&](const ref::Packet& p) -> int { for (auto& o : w.ops) {
            if (o.kind == Action::PUB && p.type == ref::PUBLISH && p.payload == o.payload) return o.id;
            if (o.kind == Action::SUB && p.type == ref::SUBSCRIBE && p.filters == o.filters) return o.id;
            if (o.kind == Action::UNSUB && p.type == ref::UNSUBSCRIBE && !p.filters.empty() && !o.filters.empty() && p.filters[0].first == o.filters[0].first && p.filters.size() == o.filters.size()) return o.id; }
        return -1; };
    std::map<int, std::pair<uint16_t, size_t>> held;   // op -> (pid, first wire index)
    for (size_t i = 0; i < wire.size(); ++i) { auto& e = wire[i]; if (!e.c2b || e.malformed) continue; auto& p = e.pkt;
        bool starts = (p.type == ref::PUBLISH && p.qos() > 0) || p.type == ref::SUBSCRIBE || p.type == ref::UNSUBSCRIBE; if (!starts) continue;
        if (p.pid == 0) { w.vio("C08:zero-id:" + sn, "packet identifier 0 on the wire"); continue; }
        int me = owner(p); if (me < 0) continue;
        for (auto& h : held) { if (h.first == me || h.second.first != p.pid) continue; const OpRec& x = w.ops[h.first];
            bool still = x.completions == 0 || x.wire_mark_done > i;
            if (still) { w.vio("C08:id-shared:" + sn, "packet id " + std::to_string(p.pid) + " written for " + opname(w.ops[me]) + " (op " + std::to_string(me) + ") while the exchange of op " + std::to_string(h.first) + " holding it was still outstanding"); return; } }
        if (!held.count(me)) held[me] = {p.pid, i};
    }
}

// C07 ---------------------------------------------------------------------------------------
static void mon_c07(World& w) {
    const std::string& sn = w.sc.name;
    for (size_t c = 0; c < w.broker->cs.size(); ++c) { auto& s = w.broker->cs[c];
        if (s.max_inflight > s.receive_maximum) w.vio("C07:receive-maximum-exceeded:" + sn, "connection " + std::to_string(c) + ": " + std::to_string(s.max_inflight) + " unacknowledged QoS>0 exchanges in flight with Receive Maximum " + std::to_string(s.receive_maximum)); }
    mon_c02(w, "C07");   // starvation: throttled publishes must get out once quota is available
}

// broker-side protocol monitors (C10 CONNECT-first/gating, C17 strict decode, C04 ack sanity)
static void mon_broker(World& w) {
    for (auto& v : w.broker->protocol_violations) { std::string prop = v.substr(0, 3); size_t col = v.find(' ', 5);
        bool want = (prop == "C17" && (w.sc.monitors & M_C17)) || (prop == "C10" && (w.sc.monitors & M_C10)) || (prop == "C04" && (w.sc.monitors & M_C04));
        if (!want) continue;
        std::string key = v.substr(5, 40); for (auto& ch : key) if (ch == ' ' || ch == ':') ch = '-'; (void)col;
        w.vio(prop + ":wire:" + key + ":" + w.sc.name, v); }
}

// C05 (drain + exactly-once) ------------------------------------------------------------------
static void mon_c05(World& w) {
    const std::string& sn = w.sc.name;
    if (w.capped && w.cap_reason.rfind("REPLAY", 0) == 0) return;
    for (auto& o : w.ops) {
        if (o.completions > 1) w.vio("C05:completed-twice:" + opname(o) + ":" + sn, opname(o) + " handler ran " + std::to_string(o.completions) + " times");
        if (o.inside_initiation && !o.expect_reject) w.vio("C05:completed-inside-initiation:" + opname(o) + ":" + sn, opname(o) + " handler ran inside the initiating call");
        if (o.inside_initiation && o.expect_reject) w.vio("C05:completed-inside-initiation:" + opname(o) + ":rejected:" + sn, "rejected " + opname(o) + " ran its handler inside the initiating call");
    }
    if (!w.drain_result.done || !w.client) return;
    bool cancelled_all = w.sc.epilogue_cancel || w.stopped_phase;
    if (!cancelled_all) return;
    for (auto& o : w.ops) if (o.completions == 0) w.vio("C05:never-completed:" + opname(o) + ":" + sn, opname(o) + " (op " + std::to_string(o.id) + ") never completed although the client was cancelled and the context drained");
    if (w.drain_result.parked || w.drain_result.timers || !w.drain_result.ioc_stopped)
        w.vio("C05:context-not-drained:" + sn, "after cancel() the execution context still has work: parked stream ops=" + std::to_string(w.drain_result.parked) + " timers=" + std::to_string(w.drain_result.timers) + " stopped=" + std::to_string(w.drain_result.ioc_stopped));
}

void run_monitors(World& w) {
    uint32_t m = w.sc.monitors;
    mon_broker(w);
    if (m & M_C01) mon_c01(w);
    if (m & M_C02) mon_c02(w, "C02");
    if (m & M_C03) mon_c03(w);
    if (m & M_C05) mon_c05(w);
    if (m & M_C06) mon_c06(w);
    if (m & M_C07) mon_c07(w);
    if (m & M_C08) mon_c08(w);
}

// ------------------------------------------------------------------ scenario sets
static std::vector<Scenario> publish_scenarios(uint32_t mon, int tier, uint32_t fam_extra = 0) {
    std::vector<Scenario> v; uint32_t fam = RECOVERABLE | SCHED | fam_extra | (tier ? F_BYTE : 0);
    ref::Props pp = {ref::pnum(0x01, 1), ref::pstr(0x03, "text/plain"), ref::ppair("tag", "x")};
    { auto s = base("P1-qos1", {RUN(), PUB(1, 1, false, pp)}, fam, tier ? 3 : 2, mon); s.broker.ack_props = true; s.broker.puback_rc = 0x10; v.push_back(s); }
    { auto s = base("P2-qos2", {RUN(), PUB(2, 1, true, pp)}, fam, tier ? 3 : 2, mon); s.broker.ack_props = true; v.push_back(s); }
    { auto s = base("P3-burst-121", {RUN(), PUB(1, 1), PUB(2, 2), PUB(1, 3)}, fam & ~(F_WRSHORT), tier ? 2 : 1, mon); v.push_back(s); }
    { auto s = base("P4-sequential-id-reuse", {RUN(), PUB(1, 1), BARRIER(), PUB(2, 2), BARRIER(), PUB(1, 3)}, fam & ~(F_WRSHORT | F_CHUNK), tier ? 2 : 1, mon); v.push_back(s); }
    { auto s = base("P5-qos2-failing-pubrec", {RUN(), PUB(2, 1), PUB(1, 2)}, fam & ~(F_WRSHORT | F_CHUNK), tier ? 2 : 1, mon); s.broker.pubrec_rc = 0x97; v.push_back(s); }
    { auto s = base("P6-tcp-qos1-qos2", {RUN(), PUB(1, 1), PUB(2, 2)}, fam & ~(F_WRSHORT | F_CHUNK), tier ? 2 : 1, mon); s.flavour = 1; v.push_back(s); }
    { auto s = base("P7-two-brokers", {RUN(), PUB(1, 1), PUB(2, 2)}, F_CONN | F_HS | F_WR | F_RDCUT | F_BCLOSE, tier ? 3 : 2, mon); s.hosts = "b0,b1"; v.push_back(s); }
    return v;
}

std::vector<Scenario> scenarios_for(const std::string& prop, int tier) {
    std::vector<Scenario> v;
    if (prop == "C01") v = publish_scenarios(M_C01, tier);
    else if (prop == "C02") {
        v = publish_scenarios(M_C02, tier);
        { auto s = base("L3-subscribe", {RUN(), SUB({{"a/b", 1}, {"c/#", 2}})}, RECOVERABLE | SCHED, tier ? 3 : 2, M_C02); v.push_back(s); }
        { auto s = base("L4-unsubscribe", {RUN(), SUB({{"a/b", 1}}), BARRIER(), UNSUB({"a/b"})}, RECOVERABLE | F_REORDER, tier ? 2 : 1, M_C02); v.push_back(s); }
        { auto s = base("L5-mixed", {RUN(), PUB(1, 1), SUB({{"x", 0}}), PUB(2, 2), UNSUB({"y"})}, RECOVERABLE | F_REORDER, tier ? 2 : 1, M_C02); v.push_back(s); }
    }
    else if (prop == "C03") {
        uint32_t fam = RECOVERABLE | SCHED | (tier ? F_BYTE : 0);
        { auto s = base("X1-qos2", {RUN(), PUB(2, 1)}, fam, tier ? 3 : 2, M_C03); v.push_back(s); }
        { auto s = base("X2-qos2-between-qos1", {RUN(), PUB(1, 1), PUB(2, 2), PUB(1, 3)}, fam & ~(F_WRSHORT | F_CHUNK), tier ? 2 : 2, M_C03); v.push_back(s); }
        { auto s = base("X3-qos2-tcp", {RUN(), PUB(2, 1), PUB(2, 2)}, fam & ~(F_WRSHORT | F_CHUNK), tier ? 2 : 1, M_C03); s.flavour = 1; v.push_back(s); }
    }
    else if (prop == "C06") {
        uint32_t fam = F_WR | F_TAIL | F_RDCUT | F_BCLOSE | F_REORDER | F_DELAY | F_LOSS | (tier ? F_CONN | F_HS : 0);
        auto rm = [](Scenario s, int n) { s.broker.connack_props = {ref::pnum(0x21, uint32_t(n))}; s.name += "-rm" + std::to_string(n); return s; };
        auto s111 = base("O-111", {RUN(), PUB(1, 1), PUB(1, 2), PUB(1, 3)}, fam, 2, M_C06);
        auto s121 = base("O-121", {RUN(), PUB(1, 1), PUB(2, 2), PUB(1, 3)}, fam, 2, M_C06);
        auto s012 = base("O-012", {RUN(), PUB(0, 1), PUB(1, 2), PUB(2, 3)}, fam, 2, M_C06);
        auto s2121 = base("O-2121", {RUN(), PUB(2, 1), PUB(1, 2), PUB(2, 3), PUB(1, 4)}, fam, tier ? 2 : 1, M_C06);
        auto late = base("O-late-publish", {RUN(), PUB(1, 1), PUB(2, 2), WAIT_HS(2), PUB(1, 3), PUB(0, 4)}, fam, 2, M_C06);
        for (auto& s : {s111, s121, s012, s2121, late}) { v.push_back(s); v.push_back(rm(s, 1)); v.push_back(rm(s, 2)); }
        { auto s = s121; s.name = "O-121-serial-wrap"; s.initial_last_serial = 0xFFFFFFFDu; v.push_back(s); v.push_back(rm(s, 1)); }
        { auto s = s2121; s.name = "O-2121-serial-wrap"; s.initial_last_serial = 0xFFFFFFFEu; v.push_back(s); }
        if (tier) for (auto& s : v) if (s.script.size() <= 4) s.D = 3;
    }
    else if (prop == "C07") {
        uint32_t fam = F_WR | F_TAIL | F_RDCUT | F_BCLOSE | F_REORDER | F_DELAY | F_NOREPLY | F_LOSS;
        for (int rmv = 1; rmv <= 3; ++rmv) {
            auto mk = [&](const std::string& n, std::vector<Action> sc, int D) { auto s = base(n + "-rm" + std::to_string(rmv), std::move(sc), fam, D, M_C07); s.broker.connack_props = {ref::pnum(0x21, uint32_t(rmv))}; return s; };
            v.push_back(mk("R-111", {RUN(), PUB(1, 1), PUB(1, 2), PUB(1, 3)}, 2));
            v.push_back(mk("R-212", {RUN(), PUB(2, 1), PUB(1, 2), PUB(2, 3)}, tier ? 3 : 2));
            if (rmv < 3) v.push_back(mk("R-12121", {RUN(), PUB(1, 1), PUB(2, 2), PUB(1, 3), PUB(2, 4), PUB(1, 5)}, tier ? 2 : 1));
            { auto s = mk("R-failing-pubrec-22", {RUN(), PUB(2, 1), PUB(2, 2), PUB(1, 3)}, 2); s.broker.pubrec_rc = 0x80; v.push_back(s); }
            // per-operation cancellation of each publish at any point (injected)
            for (int victim = 1; victim <= 3; ++victim) { auto s = mk("R-cancel-op" + std::to_string(victim), {RUN(), slot(PUB(1, 1)), slot(PUB(2, 2)), slot(PUB(1, 3))}, 2);
                s.fam |= F_INJECT; s.inject = SIGNAL(victim, 1); v.push_back(s); }
        }
    }
    else if (prop == "C08") {
        uint32_t fam = F_WR | F_RDCUT | F_REORDER | F_DELAY | F_BCLOSE;
        { auto s = base("I-mixed-out-of-order", {RUN(), PUB(1, 1), SUB({{"a", 1}}), PUB(2, 2), UNSUB({"b"}), BARRIER(), PUB(1, 3), PUB(2, 4)}, fam, tier ? 2 : 1, M_C08); v.push_back(s); }
        { auto s = base("I-cancel-middle", {RUN(), slot(PUB(1, 1)), slot(PUB(1, 2)), slot(PUB(1, 3)), PUB(1, 4)}, fam | F_INJECT, tier ? 3 : 2, M_C08); s.inject = SIGNAL(2, 1); s.after_inject = {PUB(1, 5), PUB(2, 6)}; v.push_back(s); }
        { auto s = base("I-rm1-reconnect", {RUN(), PUB(1, 1), PUB(2, 2), PUB(1, 3)}, fam | F_TAIL, 2, M_C08); s.broker.connack_props = {ref::pnum(0x21, 1)}; v.push_back(s); }
    }
    else if (prop == "C17") {
        v = publish_scenarios(M_C17, 0); for (auto& s : v) s.D = 1;
        { auto s = base("W-sub-unsub-disconnect", {RUN(), SUB({{"a/+", 0x2D}, {"$share/g/x", 1}}, {ref::pnum(0x0B, 7), ref::ppair("k", "v")}), UNSUB({"a/+"}, {ref::ppair("k", "v")}), BARRIER(), DISC(0x04, {ref::pstr(0x1F, "bye"), ref::pnum(0x11, 30)})}, F_WR | F_RDCUT | F_REORDER, 1, M_C17); s.epilogue_cancel = false; v.push_back(s); }
    }
    return v;
}

} // namespace e1
