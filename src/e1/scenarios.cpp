// Scenario sets and monitors of the simnet engine (DESIGN.md section 6).
#include "scenarios.hpp"
#include <algorithm>
#include <set>
#include <functional>

namespace e1 {

// ------------------------------------------------------------------ builders
static ref::Prop glue_typical(uint8_t id) { auto d = ref::prop_def(id); switch (d->kind) { case ref::K_BYTE: return ref::pnum(id, 1); case ref::K_U16: return ref::pnum(id, 0x1234); case ref::K_U32: return ref::pnum(id, 0x01020304); case ref::K_VARINT: return ref::pnum(id, 300);
    case ref::K_UTF8: return ref::pstr(id, "str"); case ref::K_BIN: return ref::pstr(id, std::string("\x00\x01\xff", 3)); default: return ref::ppair("k", "v"); } }
static std::string rep_hex(const std::string& b) { static const char* d = "0123456789abcdef"; std::string o; for (unsigned char c : b) { o.push_back(d[c >> 4]); o.push_back(d[c & 15]); } return o; }
static Action A(Action::K k) { Action a; a.k = k; return a; }
static Action RUN() { return A(Action::RUN); }
static Action PUB(int qos, int tag, bool retain = false, ref::Props props = {}) { Action a = A(Action::PUB); a.qos = qos; a.tag = tag; a.retain = retain; a.topic = "t/" + std::to_string(tag); a.payload = "payload-" + std::to_string(tag); a.props = std::move(props); return a; }
static Action SUB(std::vector<std::pair<std::string, uint8_t>> f, ref::Props props = {}) { Action a = A(Action::SUB); a.filters = std::move(f); a.props = std::move(props); return a; }
static Action UNSUB(std::vector<std::string> f, ref::Props props = {}) { Action a = A(Action::UNSUB); for (auto& x : f) a.filters.emplace_back(x, 0); a.props = std::move(props); return a; }
static Action RECV(int n) { Action a = A(Action::RECV); a.tag = n; return a; }
static Action BARRIER() { return A(Action::BARRIER); }
static Action WAIT_HS(int n) { Action a = A(Action::WAIT_HS); a.n = n; return a; }
static Action BPUB(int qos, int tag, ref::Props props = {}) { Action a = A(Action::BPUB); a.qos = qos; a.tag = tag; a.topic = "b/" + std::to_string(tag); a.payload = "bmsg-" + std::to_string(tag); a.props = std::move(props); return a; }
static Action DISC(uint8_t rc = 0, ref::Props props = {}) { Action a = A(Action::DISC); a.rc = rc; a.props = std::move(props); return a; }
static Action CANCEL() { return A(Action::CANCEL); }
static Action SIGNAL(int op, int type) { Action a = A(Action::SIGNAL); a.target_op = op; a.sig_type = type; return a; }
static Action slot(Action a) { a.with_slot = true; return a; }
static Action chain(Action a) { a.chain = true; return a; }
static Action BWAIT() { return A(Action::BWAIT); }

static const uint32_t RECOVERABLE = F_CONN | F_HS | F_WR | F_TAIL | F_RDCUT | F_LOSS | F_BCLOSE | F_NOREPLY;
static const uint32_t SCHED = F_REORDER | F_CHUNK | F_WRSHORT | F_DELAY;

static Scenario base(const std::string& name, std::vector<Action> script, uint32_t fam, int D, uint32_t mon) {
    Scenario s; s.name = name; s.script = std::move(script); s.fam = fam; s.D = D; s.monitors = mon | M_C17 | M_C08 | M_C10; return s;
}

// ------------------------------------------------------------------ monitor helpers
static bool is_user_op(const OpRec& o) { return o.kind == Action::PUB || o.kind == Action::SUB || o.kind == Action::UNSUB; }
static std::string opname(const OpRec& o) { static const char* n[] = {"run", "publish", "subscribe", "unsubscribe", "receive", "disconnect"}; return o.kind <= Action::DISC ? n[o.kind] : "?"; }

struct Wire { const std::vector<bkr::WireEvt>& w; };

static bool publish_matches(const ref::Packet& p, const OpRec& o) {
    return p.type == ref::PUBLISH && p.topic == o.topic && p.payload == o.payload && p.qos() == o.qos && p.retain() == o.retain && ref::props_equal(p.props, o.props);
}

// C01 ---------------------------------------------------------------------------------------
static void mon_c01(World& w) {
    auto& wire = w.broker->wire; const std::string sn = w.sc.family();
    for (auto& o : w.ops) {
        if (o.kind != Action::PUB || o.qos == 0 || o.completions == 0 || o.ec) continue;
        size_t lim = o.wire_mark_done; bool ok = false, saw_publish = false, saw_same_payload = false; std::string why = "no PUBLISH with the caller's fields reached the broker before the completion";
        for (size_t i = 0; i < lim && !ok; ++i) {
            auto& e = wire[i]; if (!e.c2b || e.malformed || e.pkt.type != ref::PUBLISH) continue;
            if (e.pkt.payload == o.payload) saw_same_payload = true;
            if (!publish_matches(e.pkt, o)) continue;
            saw_publish = true; uint16_t pid = e.pkt.pid; why = "the broker had not sent the final acknowledgement for the PUBLISH's packet id before the completion";
            for (size_t j = i + 1; j < lim && !ok; ++j) {
                auto& a = wire[j]; if (a.c2b || a.malformed || a.raw_hostile || !a.pkt.has_pid || a.pkt.pid != pid) continue;
                // the client cannot have consumed an acknowledgement it has not read yet
                if (a.conn >= int(o.read_at_done.size()) || a.b2c_end > o.read_at_done[a.conn]) { why = "the acknowledgement had not been read by the client when the handler ran"; continue; }
                uint8_t arc = a.pkt.has_rc ? a.pkt.rc : 0;
                if (o.qos == 1 && a.pkt.type == ref::PUBACK) {
                    if (o.rc != arc) why = "handler reason code differs from the PUBACK's"; else if (!ref::props_equal(o.rprops, a.pkt.props)) why = "handler properties differ from the PUBACK's"; else ok = true;
                }
                if (o.qos == 2 && a.pkt.type == ref::PUBREC) {
                    if (arc >= 0x80) { if (o.rc == arc) ok = true; else why = "handler reason code differs from the failing PUBREC's"; continue; }
                    for (size_t k = j + 1; k < lim && !ok; ++k) { auto& r = wire[k]; if (!r.c2b || r.malformed || r.pkt.type != ref::PUBREL || r.pkt.pid != pid) continue;
                        for (size_t l = k + 1; l < lim && !ok; ++l) { auto& c = wire[l]; if (c.c2b || c.malformed || c.raw_hostile || c.pkt.type != ref::PUBCOMP || c.pkt.pid != pid) continue;
                            if (c.conn >= int(o.read_at_done.size()) || c.b2c_end > o.read_at_done[c.conn]) { why = "the PUBCOMP had not been read by the client when the handler ran"; continue; }
                            uint8_t crc = c.pkt.has_rc ? c.pkt.rc : 0;
                            if (o.rc != crc) why = "handler reason code differs from the PUBCOMP's"; else if (!ref::props_equal(o.rprops, c.pkt.props)) why = "handler properties differ from the PUBCOMP's"; else ok = true; } }
                }
            }
        }
        if (!ok) { std::string kind = !saw_publish ? (saw_same_payload ? "publish-fields-differ" : "success-without-publish") : (why.find("differ") != std::string::npos ? "wrong-result" : "success-without-ack");
            w.vio("C01:" + kind + ":q" + std::to_string(o.qos) + ":" + sn, "async_publish (tag " + std::to_string(o.tag) + ") completed without error but " + why); }
    }
}

// C02 ---------------------------------------------------------------------------------------
static bool transport_error(const error_code& ec) {
    return ec == asio::error::eof || ec == asio::error::connection_reset || ec == asio::error::broken_pipe || ec == asio::error::not_connected || ec == asio::error::timed_out ||
           ec == asio::error::connection_refused || ec == asio::error::connection_aborted || ec == asio::error::try_again || ec == asio::error::no_recovery || ec == asio::error::bad_descriptor;
}
static void mon_c02(World& w, const char* prop) {
    const std::string sn = w.sc.family(); std::string P = prop;
    if (w.capped && w.cap_reason.rfind("REPLAY", 0) == 0) return;
    for (auto& o : w.ops) {
        if (!is_user_op(o) || o.expect_reject) continue;
        if (o.kind == Action::PUB && o.qos == 0) { if (o.completions && transport_error(o.ec) && o.epoch == w.ops.back().epoch) {} continue; }
        bool cancelled_by_caller = o.signalled != 0 || o.epoch != (w.epoch - (w.sc.epilogue_cancel ? 1 : 0)) ;
        for (auto ts : w.stop_times) if (ts >= o.t_init && (o.completions == 0 || ts <= o.t_done)) cancelled_by_caller = true;   // the whole client was stopped while the op was outstanding
        if (cancelled_by_caller || o.after_stop) continue;   // ops issued on a client that is not running are not 'accepted and retried'
        if (o.completions == 0 || (o.t_done >= 0 && o.ec == asio::error::operation_aborted && w.drain_result.done && o.completions == 1 && o.wire_mark_done == w.broker->wire.size() && w.capped)) {
            w.vio(P + ":not-completed:" + opname(o) + ":" + sn, "accepted " + opname(o) + " (tag " + std::to_string(o.tag) + ") had not completed " + (w.capped ? "when the " + w.cap_reason + " was reached" : "although no event is enabled any more") + " after a fault-free suffix");
            continue; }
        if (o.ec == asio::error::operation_aborted && o.completions == 1) {
            // completed by the epilogue's cancel(): it was still outstanding at the end of the suffix
            w.vio(P + ":not-completed:" + opname(o) + ":" + sn, "accepted " + opname(o) + " (tag " + std::to_string(o.tag) + ") was still outstanding at the end of the fault-free suffix"); continue; }
        if (o.ec) w.vio(P + ":error-completion:" + opname(o) + ":" + o.ec.message() + ":" + sn, "accepted " + opname(o) + " completed with " + o.ec.message() + " instead of being retried");
    }
    if (P != "C02") return;
    // retransmissions keep their packet identifier while the acknowledgement is outstanding
    auto& wire = w.broker->wire;
    for (auto& o : w.ops) {
        if (!is_user_op(o) || (o.kind == Action::PUB && o.qos == 0)) continue;
        int pid = -1; size_t lim = o.completions ? o.wire_mark_done : wire.size();
        for (size_t i = 0; i < lim; ++i) { auto& e = wire[i]; if (!e.c2b || e.malformed) continue; bool mine = false;
            if (o.kind == Action::PUB && e.pkt.type == ref::PUBLISH && e.pkt.payload == o.payload) mine = true;
            if (o.kind == Action::SUB && e.pkt.type == ref::SUBSCRIBE && e.pkt.filters == o.filters) mine = true;
            if (o.kind == Action::UNSUB && e.pkt.type == ref::UNSUBSCRIBE && e.pkt.filters.size() == o.filters.size() && e.pkt.filters[0].first == o.filters[0].first) mine = true;
            if (!mine) continue;
            if (pid < 0) pid = e.pkt.pid; else if (pid != e.pkt.pid) { w.vio("C02:retransmit-new-id:" + opname(o) + ":" + sn, "retransmission of " + opname(o) + " (tag " + std::to_string(o.tag) + ") carries packet id " + std::to_string(e.pkt.pid) + " instead of " + std::to_string(pid)); break; } }
    }
}

// C03 ---------------------------------------------------------------------------------------
static std::vector<std::pair<size_t, std::string>> packets_in(const std::string& d) {   // (offset, raw) for each complete packet in a write
    std::vector<std::pair<size_t, std::string>> v; size_t i = 0;
    while (i < d.size()) { size_t j = i + 1; uint32_t val = 0; int sh = 0; bool ok = false; while (j < d.size() && sh <= 21) { uint8_t c = uint8_t(d[j++]); val |= uint32_t(c & 0x7F) << sh; sh += 7; if (!(c & 0x80)) { ok = true; break; } }
        if (!ok || j + val > d.size()) break; v.emplace_back(i, d.substr(i, j + val - i)); i = j + val; }
    return v;
}
static void mon_c03(World& w) {
    const std::string sn = w.sc.family();
    for (auto& o : w.ops) {
        if (o.kind != Action::PUB || o.qos == 0) continue;
        // transmissions of this message as the client wrote them (write log), in order
        struct Tx { bool ok; bool dup; std::string raw; uint16_t pid; size_t wire_mark; int conn; size_t seq_start, seq_done; }; std::vector<Tx> txs; std::string canon;
        size_t first_pubrel_mark = SIZE_MAX;
        for (auto& wl : w.net->wlog) for (auto& pk : packets_in(wl.data)) {
            auto r = ref::decode(pk.second); if (r.st != ref::D_OK) continue;
            if (r.pkt.type == ref::PUBLISH && r.pkt.payload == o.payload) { std::string c = pk.second; c[0] = char(c[0] & ~0x08); if (canon.empty()) canon = c;
                txs.push_back({wl.ok, r.pkt.dup(), c, r.pkt.pid, wl.wire_mark, wl.conn, wl.seq_start, wl.seq_done}); }
        }
        if (txs.empty()) continue;
        for (size_t k = 0; k < txs.size(); ++k) {
            if (txs[k].raw != canon) { w.vio("C03:retransmission-differs:" + sn, "a retransmitted PUBLISH (tag " + std::to_string(o.tag) + ") is not byte-identical to the first transmission (beyond the DUP bit)"); break; }
            if (k == 0 && txs[k].dup) w.vio("C03:first-transmission-dup:" + sn, "first transmission of PUBLISH (tag " + std::to_string(o.tag) + ") has DUP=1");
            bool earlier_ok = false; for (size_t j = 0; j < k; ++j) if (txs[j].ok) earlier_ok = true;
            if (k > 0 && earlier_ok && !txs[k].dup) { w.vio("C03:retransmission-without-dup:" + sn, "PUBLISH (tag " + std::to_string(o.tag) + ") retransmitted with DUP=0 although an earlier transmission had been written successfully"); break; }
        }
        if (o.qos != 2) continue;
        // "consumed a successful PUBREC": the PUBLISH was written successfully on a connection and the client read, on that
        // connection, a successful PUBREC for it - from then on the exchange is past the PUBLISH step whatever the order in
        // which the two completions were processed
        bool flagged = false;
        for (size_t k = 0; k < txs.size(); ++k) { if (!txs[k].ok || txs[k].conn < 0) continue; const sim::Conn& cn = w.net->conns[txs[k].conn]; size_t consumed_seq = SIZE_MAX;
            int p_idx = -1; for (auto& e : w.broker->wire) if (e.c2b && !e.malformed && e.conn == txs[k].conn && e.pkt.type == ref::PUBLISH && e.pkt.payload == o.payload) { p_idx = e.seq; break; }
            if (p_idx < 0) continue;
            for (auto& e : w.broker->wire) { if (e.c2b || e.malformed || e.conn != txs[k].conn || e.seq < p_idx || e.pkt.type != ref::PUBREC || e.pkt.pid != txs[k].pid || (e.pkt.has_rc && e.pkt.rc >= 0x80)) continue;
                for (size_t m = 0; m < cn.read_marks.size() && m < cn.read_mark_seq.size(); ++m) if (cn.read_marks[m].first >= e.b2c_end) { consumed_seq = std::max(cn.read_mark_seq[m], txs[k].seq_done); break; }
                break; }
            if (consumed_seq == SIZE_MAX) continue;
            for (size_t j = k + 1; j < txs.size() && !flagged; ++j) if (txs[j].seq_start > consumed_seq) { w.vio("C03:publish-after-pubrec-read:" + sn, "QoS 2 PUBLISH (tag " + std::to_string(o.tag) + ") was transmitted again although it had been written successfully on connection " + std::to_string(txs[k].conn) + " and the client had read the successful PUBREC for it there"); flagged = true; }
            if (flagged) break;
        }
        if (flagged) continue;
        // "... it only (re)transmits PUBREL until PUBCOMP arrives": an exchange that reached PUBREL and has not seen its PUBCOMP goes on
        // with PUBREL on every later connection of the resumed session on which the client sends anything at all - whether or not the
        // application has meanwhile cancelled the operation
        { uint16_t xp = txs[0].pid; int last_rel_conn = -1; bool after_pub = false; bool over = false;
          for (auto& wl : w.net->wlog) { if (over) break; for (auto& pk : packets_in(wl.data)) { auto r2 = ref::decode(pk.second); if (r2.st != ref::D_OK) continue;
              if (r2.pkt.type == ref::PUBLISH && r2.pkt.payload == o.payload) after_pub = true;
              else if (r2.pkt.type == ref::PUBLISH && after_pub && r2.pkt.has_pid && r2.pkt.pid == xp && last_rel_conn >= 0) over = true;      // the id moved on to another message: judged below through the connections in between
              else if (r2.pkt.type == ref::PUBREL && after_pub && r2.pkt.pid == xp && wl.conn >= 0) last_rel_conn = std::max(last_rel_conn, wl.conn); } }
          if (last_rel_conn >= 0) {
              bool comp_read = false; for (auto& e : w.broker->wire) if (!e.c2b && !e.malformed && e.pkt.type == ref::PUBCOMP && e.pkt.pid == xp && e.conn >= last_rel_conn && e.conn < int(w.net->conns.size())) { for (auto& m : w.net->conns[e.conn].read_marks) if (m.first >= e.b2c_end) comp_read = true; }
              if (!comp_read) for (int c2 = last_rel_conn + 1; c2 < int(w.net->conns.size()) && c2 < int(w.broker->cs.size()); ++c2) {
                  bool resumed = false; for (auto& e : w.broker->wire) if (e.conn == c2 && !e.c2b && !e.malformed && e.pkt.type == ref::CONNACK && e.pkt.rc == 0 && e.pkt.session_present) resumed = true;
                  if (!resumed) break;       // session lost (or handshake never finished): nothing to continue
                  bool sent_other = false, rel = false; for (auto& wl : w.net->wlog) if (wl.conn == c2) for (auto& pk : packets_in(wl.data)) { auto r2 = ref::decode(pk.second); if (r2.st != ref::D_OK) continue; if (r2.pkt.type == ref::PUBREL && r2.pkt.pid == xp) rel = true; else if (r2.pkt.type != ref::CONNECT && r2.pkt.type != ref::AUTH && r2.pkt.type != ref::PINGREQ && r2.pkt.type != ref::DISCONNECT) sent_other = true; }
                  if (rel) break;
                  if (sent_other) { w.vio("C03:pubrel-not-retransmitted:" + sn, "QoS 2 PUBLISH (tag " + std::to_string(o.tag) + ") had reached PUBREL without a PUBCOMP, yet on the resumed connection " + std::to_string(c2) + " the client sent other packets and no PUBREL for id " + std::to_string(xp)); flagged = true; break; } } } }
        if (flagged) continue;
        // once a PUBREL for the message's id has been handed to the transport, no PUBLISH of the message again
        uint16_t pid = txs[0].pid; bool pubrel_seen = false; size_t idx = 0;
        for (auto& wl : w.net->wlog) { for (auto& pk : packets_in(wl.data)) { auto r = ref::decode(pk.second); if (r.st != ref::D_OK) continue; idx++;
            if (r.pkt.type == ref::PUBLISH && r.pkt.payload == o.payload) { if (pubrel_seen) { w.vio("C03:publish-after-pubrel:" + sn, "QoS 2 PUBLISH (tag " + std::to_string(o.tag) + ") was transmitted again after its PUBREL had been sent"); goto next_op; } }
            else if (r.pkt.type == ref::PUBREL && r.pkt.pid == pid && !txs.empty()) { bool after_first = false; for (auto& wl2 : w.net->wlog) { if (&wl2 == &wl) break; if (wl2.data.find(o.payload) != std::string::npos) after_first = true; } if (after_first || wl.data.find(o.payload) != std::string::npos) pubrel_seen = true; } } }
        next_op:;
        (void)first_pubrel_mark;
    }
}

// C06 ---------------------------------------------------------------------------------------
static void mon_c06(World& w) {
    const std::string sn = w.sc.family(); auto& wire = w.broker->wire;
    std::map<std::string, int> op_of; for (auto& o : w.ops) if (o.kind == Action::PUB) op_of[o.payload] = o.id;
    for (size_t c = 0; c < w.broker->cs.size(); ++c) {
        bool rm_announced = false; for (auto& q : w.broker->cs[c].connack_props_sent) if (q.id == 0x21) rm_announced = true;
        int last_q = -1, last_all = -1;
        for (auto& e : wire) { if (!e.c2b || e.malformed || e.conn != int(c) || e.pkt.type != ref::PUBLISH) continue; auto it = op_of.find(e.pkt.payload); if (it == op_of.end()) continue; int id = it->second;
            if (e.pkt.qos() > 0) { if (id < last_q) { w.vio("C06:qos-order:" + sn, "on connection " + std::to_string(c) + " the QoS>0 PUBLISH of op " + std::to_string(id) + " was written after that of the later op " + std::to_string(last_q)); return; } last_q = id; }
            if (!rm_announced) { if (id < last_all) { w.vio("C06:order-no-receive-maximum:" + sn, "no Receive Maximum announced, yet PUBLISH of op " + std::to_string(id) + " was written after that of op " + std::to_string(last_all)); return; } last_all = id; } }
    }
}

// C08 (wire half) -----------------------------------------------------------------------------
static void mon_c08(World& w) {
    const std::string sn = w.sc.family(); auto& wire = w.broker->wire;
    // every exchange has completed: every identifier must be available again (else pid_overrun comes before 65535 are in use)
    if (w.free_ids_at_quiet >= 0 && w.free_ids_at_quiet != 65535) w.vio("C08:id-not-released:" + sn, w.free_ids_at_quiet < 65535 ? std::to_string(65535 - w.free_ids_at_quiet) + " packet identifier(s) still reserved although every exchange has completed" : "the allocator holds " + std::to_string(w.free_ids_at_quiet) + " free identifiers out of 65535 (one was released twice)");
    // which op does a client packet belong to
    auto owner = [&](const ref::Packet& p) -> int { for (auto& o : w.ops) {
            if (o.kind == Action::PUB && p.type == ref::PUBLISH && p.payload == o.payload) return o.id;
            if (o.kind == Action::SUB && p.type == ref::SUBSCRIBE && p.filters == o.filters) return o.id;
            if (o.kind == Action::UNSUB && p.type == ref::UNSUBSCRIBE && !p.filters.empty() && !o.filters.empty() && p.filters[0].first == o.filters[0].first && p.filters.size() == o.filters.size()) return o.id; }
        return -1; };
    std::map<int, std::pair<uint16_t, size_t>> held;   // op -> (pid, first wire index)
    for (size_t i = 0; i < wire.size(); ++i) { auto& e = wire[i]; if (!e.c2b || e.malformed) continue; auto& p = e.pkt;
        bool starts = (p.type == ref::PUBLISH && p.qos() > 0) || p.type == ref::SUBSCRIBE || p.type == ref::UNSUBSCRIBE; if (!starts) continue;
        if (p.pid == 0) { w.vio("C08:zero-id:" + sn, "packet identifier 0 on the wire"); continue; }
        int me = owner(p); if (me < 0) continue;
        for (auto& h : held) { if (h.first == me || h.second.first != p.pid) continue; const OpRec& x = w.ops[h.first];
            bool still = x.completions == 0 || x.wire_mark_done > i;
            if (still) { w.vio("C08:id-shared:" + sn, "packet id " + std::to_string(p.pid) + " written for " + opname(w.ops[me]) + " (op " + std::to_string(me) + ") while the exchange of op " + std::to_string(h.first) + " holding it was still outstanding"); return; } }
        if (!held.count(me)) held[me] = {p.pid, i};
    }
}

// C07 ---------------------------------------------------------------------------------------
static void mon_c07(World& w) {
    const std::string sn = w.sc.family();
    for (size_t c = 0; c < w.broker->cs.size(); ++c) { auto& s = w.broker->cs[c];
        if (s.max_inflight > s.receive_maximum) w.vio("C07:receive-maximum-exceeded:" + sn, "connection " + std::to_string(c) + ": " + std::to_string(s.max_inflight) + " unacknowledged QoS>0 exchanges in flight with Receive Maximum " + std::to_string(s.receive_maximum)); }
    mon_c02(w, "C07");   // starvation: throttled publishes must get out once quota is available
}

// broker-side protocol monitors (C10 CONNECT-first/gating, C17 strict decode, C04 ack sanity)
// C19 (client level): a complete frame that is structurally unparseable, once read by the client, ends that connection:
// the client closes it (a DISCONNECT may precede)
static void mon_c19(World& w) {
    const std::string sn = w.sc.family();
    for (auto& e : w.broker->wire) { if (e.c2b || !e.malformed || e.incomplete || e.conn < 0 || e.conn >= int(w.net->conns.size())) continue;
        // the whole frame must be there: fixed header byte, complete Remaining Length, body
        size_t i = 1, mult = 1, rl = 0; bool varint_ok = false; for (; i < e.raw.size() && i <= 4; ++i) { rl += size_t(uint8_t(e.raw[i]) & 0x7F) * mult; mult *= 128; if (!(uint8_t(e.raw[i]) & 0x80)) { varint_ok = true; ++i; break; } }
        if (!varint_ok || i + rl > e.raw.size()) continue;
        // an acknowledgement nobody is waiting for is parked by the client without being parsed: its content is not judged
        { int t = uint8_t(e.raw[0]) >> 4; if (t == ref::PUBACK || t == ref::PUBREC || t == ref::PUBREL || t == ref::PUBCOMP || t == ref::SUBACK || t == ref::UNSUBACK) {
            bool header_ok = (uint8_t(e.raw[0]) & 0x0F) == (t == ref::PUBREL ? 2 : 0);
            if (header_ok && rl >= 2) { uint16_t pid = uint16_t((uint8_t(e.raw[i]) << 8) | uint8_t(e.raw[i + 1])); int want = t == ref::PUBACK || t == ref::PUBREC ? ref::PUBLISH : t == ref::PUBCOMP ? ref::PUBREL : t == ref::PUBREL ? ref::PUBREC : t == ref::SUBACK ? ref::SUBSCRIBE : ref::UNSUBSCRIBE;
                bool waiting = false;
                for (auto& q : w.broker->wire) { if (q.seq >= e.seq) break; if (q.conn != e.conn || q.malformed) continue;
                    if (q.c2b && q.pkt.type == want && q.pkt.has_pid && q.pkt.pid == pid && (want != ref::PUBLISH || q.pkt.qos() == (t == ref::PUBACK ? 1 : 2))) waiting = true;
                    if (!q.c2b && q.pkt.type == t && q.pkt.has_pid && q.pkt.pid == pid) waiting = false; }    // already answered by a well-formed one
                if (!waiting) continue; } } }
        const sim::Conn& cn = w.net->conns[e.conn]; size_t read_seq = SIZE_MAX;
        uint64_t frame_end = e.b2c_end - e.raw.size() + i + rl;
        for (size_t m = 0; m < cn.read_marks.size() && m < cn.read_mark_seq.size(); ++m) if (cn.read_marks[m].first >= frame_end) { read_seq = cn.read_mark_seq[m]; break; }
        if (read_seq == SIZE_MAX) continue;      // never read in full
        auto& st = w.net->streams[cn.stream];
        // (packets that precede the malformed one in the same read are still answered - only the closure is demanded)
        if (w.open_before_epilogue.count(st->id) && !cn.dead && !cn.broker_closed && !w.capped) { w.vio("C19:malformed-not-closed:" + sn, "the client read a malformed packet (" + e.why + ") on connection " + std::to_string(e.conn) + " and kept the connection"); return; }
    }
}

static void mon_broker(World& w) {
    for (auto& v : w.broker->protocol_violations) { std::string prop = v.substr(0, 3); size_t col = v.find(' ', 5);
        bool want = (prop == "C17" && (w.sc.monitors & M_C17)) || (prop == "C10" && (w.sc.monitors & M_C10)) || (prop == "C04" && (w.sc.monitors & M_C04));
        if (!want) continue;
        std::string key = v.substr(5, 40); for (auto& ch : key) if (ch == ' ' || ch == ':') ch = '-'; (void)col;
        w.vio(prop + ":wire:" + key + ":" + w.sc.family(), v); }
}

// C05 (drain + exactly-once) ------------------------------------------------------------------
static void mon_c05(World& w) {
    const std::string sn = w.sc.family();
    if (w.capped && w.cap_reason.rfind("REPLAY", 0) == 0) return;
    for (auto& o : w.ops) {
        if (o.completions > 1) w.vio("C05:completed-twice:" + opname(o) + ":" + sn, opname(o) + " handler ran " + std::to_string(o.completions) + " times");
        if (o.inside_initiation && !o.expect_reject) w.vio("C05:completed-inside-initiation:" + opname(o) + ":" + sn, opname(o) + " handler ran inside the initiating call");
        if (o.inside_initiation && o.expect_reject) w.vio("C05:completed-inside-initiation:" + opname(o) + ":rejected:" + sn, "rejected " + opname(o) + " ran its handler inside the initiating call");
    }
    if (!w.drain_result.done || !w.client) return;
    bool cancelled_all = w.sc.epilogue_cancel || w.stopped_phase;
    if (!cancelled_all) return;
    // operations issued on a client that is not running (never run, or stopped and not yet run again) are outside the
    // documented use ("The Client cannot be used before calling async_run again") and are not judged
    bool unjudged_pending = false; for (auto& o : w.ops) if (o.completions == 0 && o.after_stop) unjudged_pending = true;
    for (auto& o : w.ops) if (o.completions == 0 && !o.after_stop) w.vio("C05:never-completed:" + opname(o) + ":" + sn, opname(o) + " (op " + std::to_string(o.id) + ") never completed although the client was cancelled and the context drained");
    if (w.drain_result.parked || w.drain_result.timers || (!w.drain_result.ioc_stopped && !unjudged_pending))
        w.vio("C05:context-not-drained:" + sn, "after cancel() the execution context still has work: parked stream ops=" + std::to_string(w.drain_result.parked) + " timers=" + std::to_string(w.drain_result.timers) + " stopped=" + std::to_string(w.drain_result.ioc_stopped));
}


// C05 additions: operations outstanding when the client was stopped must end with operation_aborted ---------
static void mon_c05_stop(World& w) {
    const std::string sn = w.sc.family();
    if (!w.stop_snap.done) return;
    std::string what = w.sc.inject ? std::string(w.sc.inject->k == Action::CANCEL ? "cancel" : w.sc.inject->k == Action::DISC ? "async_disconnect" : w.sc.inject->k == Action::DESTROY ? "destruction" : w.sc.inject->k == Action::MOVE_ASSIGN ? "move-assignment" : "stop") : "stop";
    for (auto& o : w.ops) {
        if (o.epoch != 0 || o.kind == Action::DISC || o.after_stop) continue;       // ops of the stopped incarnation (not those issued on the stopped client afterwards)
        if (o.t_done >= 0 && o.t_done > w.t_stop && o.ec != asio::error::operation_aborted && !(o.kind == Action::RECV && o.ec == boost::system::errc::success && false))
            w.vio("C05:not-aborted-after-" + what + ":" + opname(o) + ":" + sn, opname(o) + " completed with '" + o.ec.message() + "' after the client had been stopped (" + what + ")");
    }
    if (w.stop_snap.incomplete > 0) {
        for (auto& o : w.ops) if (o.epoch == 0 && o.kind != Action::DISC && (o.completions == 0 || o.t_done > w.stop_snap.t))
            { w.vio("C05:outstanding-after-" + what + ":" + opname(o) + ":" + sn, opname(o) + " (op " + std::to_string(o.id) + ") had not completed once " + what + " finished and the context was drained without advancing time"); break; }
    }
    if (w.stop_snap.parked || w.stop_snap.timers || (!w.stop_snap.ioc_stopped && w.newer_pending_at_snap == 0))
        w.vio("C05:context-not-drained-after-" + what + ":" + sn, "after " + what + " the context still has work: parked stream ops=" + std::to_string(w.stop_snap.parked) + " timers=" + std::to_string(w.stop_snap.timers) + " stopped=" + std::to_string(w.stop_snap.ioc_stopped));
}

// C09 ---------------------------------------------------------------------------------------
static void mon_c09(World& w) {
    const std::string sn = w.sc.family();
    const OpRec* d = nullptr; for (auto& o : w.ops) if (o.kind == Action::DISC && !o.expect_reject) { d = &o; break; }
    if (!d) return;
    if (d->completions == 0) { if (!(w.capped && w.cap_reason.rfind("REPLAY", 0) == 0)) w.vio("C09:never-completed:" + sn, "async_disconnect never completed"); return; }
    int64_t dt = d->t_done - d->t_init;
    if (dt > 5000000000LL) w.vio("C09:late-completion:" + sn, "async_disconnect completed " + std::to_string(dt / 1e9) + " s after initiation (limit 5 s)");
    // expected DISCONNECT packet
    ref::Packet exp; exp.type = ref::DISCONNECT; exp.rc = uint8_t(d->qos); exp.has_rc = true; exp.has_props = true; exp.props = d->props;   // (the reason code given travels in the qos field of the record)
    // per connection: writes started after initiation
    std::map<int, std::vector<const sim::WriteLog*>> per;
    size_t restart_seq = SIZE_MAX; for (auto& o : w.ops) if (o.kind == Action::RUN && o.id > d->id) { restart_seq = o.op_seq_init; break; }
    for (auto& wl : w.net->wlog) if (wl.seq_start > d->op_seq_init && wl.seq_start <= restart_seq && wl.conn >= 0) per[wl.conn].push_back(&wl);
    // writes still parked (never completed) also count
    for (auto& kv : per) {
        bool seen_disc = false;
        for (auto* wl : kv.second) {
            auto pk = packets_in(wl->data); if (pk.empty()) continue;
            bool all_handshake = true; for (auto& q : pk) { uint8_t t = uint8_t(q.second[0]) >> 4; if (t != ref::CONNECT && t != ref::AUTH) all_handshake = false; }
            if (all_handshake && !seen_disc) continue;
            if (seen_disc) { w.vio("C09:write-after-disconnect:" + sn, "something was written on connection " + std::to_string(kv.first) + " after the DISCONNECT"); return; }
            auto r = ref::decode(pk[0].second);
            if (pk.size() != 1 || r.st != ref::D_OK || r.pkt.type != ref::DISCONNECT) {
                w.vio("C09:disconnect-not-first:" + sn, "after async_disconnect the first thing written on connection " + std::to_string(kv.first) + " is not a lone DISCONNECT (" + std::to_string(pk.size()) + " packet(s), first type " + ref::ptype_name(uint8_t(pk[0].second[0]) >> 4) + ")"); return; }
            uint8_t rc = r.pkt.has_rc ? r.pkt.rc : 0;
            // properties are dropped exactly when the DISCONNECT as given would exceed the Maximum Packet Size this connection's CONNACK announced
            uint64_t limit = UINT64_MAX; for (auto& e : w.broker->wire) if (e.conn == kv.first && !e.c2b && !e.malformed && e.pkt.type == ref::CONNACK) for (auto& pr : e.pkt.props) if (pr.id == 0x27) limit = pr.num;
            bool must_drop = ref::encode(exp).size() > limit;
            bool props_ok = must_drop ? r.pkt.props.empty() : ref::props_equal(r.pkt.props, exp.props);
            if (rc != uint8_t(d->qos) || !props_ok) { w.vio("C09:wrong-disconnect:" + sn, "DISCONNECT carries reason " + std::to_string(rc) + " / " + std::to_string(r.pkt.props.size()) + " properties instead of the values given"); return; }
            seen_disc = true;
        }
    }
    // silence afterwards
    if (w.net->connects_after_stop > 0) w.vio("C09:connect-after-completion:" + sn, "a connection was opened after async_disconnect completed and before async_run was called again");
    if (w.net->writes_started_after_stop > 0) w.vio("C09:write-after-completion:" + sn, "something was written after async_disconnect completed and before async_run was called again");
}

// C10 ---------------------------------------------------------------------------------------
static void mon_c10(World& w) {
    const Scenario& sc = w.sc; const std::string sn = sc.family(); auto& wire = w.broker->wire;
    // CONNECT contents
    ref::Props expp = sc.connect_props; if (sc.auth.present) { expp.erase(std::remove_if(expp.begin(), expp.end(), [](const ref::Prop& p) { return p.id == 0x15 || p.id == 0x16; }), expp.end()); expp.push_back(ref::pstr(0x15, sc.auth.method)); expp.push_back(ref::pstr(0x16, "init")); }
    for (size_t c = 0; c < w.net->conns.size(); ++c) {
        const bkr::WireEvt* first = nullptr; for (auto& e : wire) if (e.conn == int(c) && e.c2b) { first = &e; break; }
        if (!first || first->malformed || first->pkt.type != ref::CONNECT) continue;   // non-CONNECT first packets are reported by the broker monitor
        const ref::Packet& p = first->pkt; std::string why;
        if (p.client_id != sc.client_id) why = "client identifier";
        else if (p.user.has_value() != !sc.user.empty() || (p.user && *p.user != sc.user)) why = "user name";
        else if (p.pass.has_value() != !sc.pass.empty() || (p.pass && *p.pass != sc.pass)) why = "password";
        else if (p.keep_alive != sc.keep_alive) why = "keep alive";
        else if (p.clean_start) why = "clean start";
        else if (p.has_will != sc.will.present) why = "will flag";
        else if (p.has_will && (p.will_topic != sc.will.topic || p.will_payload != sc.will.payload || p.will_qos != sc.will.qos || p.will_retain != sc.will.retain || !ref::props_equal(p.will_props, sc.will.props))) why = "will";
        else if (!ref::props_equal(p.props, expp)) why = "properties";
        if (!why.empty()) { w.vio("C10:connect-differs:" + why + ":" + sn, "CONNECT on connection " + std::to_string(c) + " does not carry the configured " + why); break; }
    }
    // attempts: order, 5 s abandon, pauses
    struct Att { int stream; int64_t start, end; bool ok; uint32_t addr; size_t seq; };
    std::vector<Att> atts;
    for (auto& st : w.net->streams) { if (st->connect_started_ns < 0) continue; Att a; a.stream = st->id; a.seq = st->connect_seq; a.start = st->connect_started_ns; a.addr = st->connect_ep.address().to_v4().to_uint();
        bool hs_ok = st->conn >= 0 && w.broker->handshake_done(st->conn) ; a.ok = hs_ok;
        a.end = hs_ok ? st->closed_ns : (st->closed_ns >= 0 ? st->closed_ns : st->connect_done_ns);
        if (hs_ok) for (int64_t t : {st->first_error_ns, st->read_cancelled_ns}) if (t >= 0 && (a.end < 0 || t < a.end)) a.end = t;
        atts.push_back(a); }
    std::sort(atts.begin(), atts.end(), [](const Att& a, const Att& b) { return a.stream < b.stream; });
    // expected endpoint cycle from the host list
    std::vector<uint32_t> cycle; { std::string h = sc.hosts; size_t p = 0; while (p <= h.size()) { size_t q = h.find(',', p); std::string one = h.substr(p, q == std::string::npos ? std::string::npos : q - p); size_t a = one.find_first_not_of(' '); size_t b = one.find_first_of(": ", a);
            std::string name = one.substr(a, b == std::string::npos ? std::string::npos : b - a); if (name.size() == 2 && name[0] == 'b') { int i = name[1] - '0'; if (!(sc.dns_fail_mask & (1u << i))) { cycle.push_back((10u << 24) | uint32_t(10 + i)); if (sc.dns_two_mask & (1u << i)) cycle.push_back((10u << 24) | (1u << 8) | uint32_t(10 + i)); } }
            if (q == std::string::npos) break; p = q + 1; } }
    if (cycle.empty()) return;
    for (size_t k = 0; k < atts.size(); ++k) {
        const Att& a = atts[k];
        // ... and not earlier either: an attempt on which nothing failed (no refusal, no transport error, nothing malformed, no stop) gets its 5 s
        if (!a.ok && a.end >= 0 && a.end - a.start < 5000000000LL) { auto& st = w.net->streams[a.stream]; bool cause = st->connect_failed || st->first_error_ns >= 0;
            if (st->conn >= 0) { const sim::Conn& cn = w.net->conns[st->conn]; if (cn.dead || cn.broker_closed) cause = true; for (auto& e : w.broker->wire) if (e.conn == st->conn && !e.c2b) cause = true; /* any broker reply: refusal, malformed, AUTH - judged elsewhere */ }
            for (auto ts : w.stop_times) if (ts <= a.end) cause = true;
            if (st->closed_after_stop) cause = true;
            if (!cause && st->closed_ns >= 0) { w.vio("C10:attempt-abandoned-early:" + sn, "connection attempt on stream " + std::to_string(a.stream) + " was given up after " + std::to_string((a.end - a.start) / 1e9) + " s although nothing had failed on it (silent handshakes are abandoned after 5 s)"); break; } }
        if (!a.ok && a.end >= 0 && a.end - a.start > 5000000000LL) { w.vio("C10:handshake-not-abandoned-in-5s:" + sn, "connection attempt on stream " + std::to_string(a.stream) + " lasted " + std::to_string((a.end - a.start) / 1e9) + " s"); break; }
        bool dns_varies = sc.gate_dns;   // lookups may fail or time out: hosts can be skipped and lookups take time
        if (k == 0) { if (a.addr != cycle[0] && !dns_varies) { w.vio("C10:first-host:" + sn, "first connection attempt did not go to the first broker of the list"); break; } continue; }
        const Att& pr = atts[k - 1];
        { bool restarted = false; for (auto& o : w.ops) if (o.kind == Action::RUN && o.op_seq_init >= pr.seq && o.op_seq_init < a.seq) restarted = true; if (w.drain_result.done && false) restarted = true;
          if (restarted) { if (a.addr != cycle[0] && !dns_varies) { w.vio("C10:first-host:" + sn, "first connection attempt after a restart did not go to the first broker of the list"); break; } continue; } }
        size_t pi = std::find(cycle.begin(), cycle.end(), pr.addr) - cycle.begin(); size_t ci = std::find(cycle.begin(), cycle.end(), a.addr) - cycle.begin();
        if (pi >= cycle.size() || ci >= cycle.size()) { w.vio("C10:unknown-endpoint:" + sn, "connection attempt to an address outside the broker list"); break; }
        // a two-address host whose first address succeeded moves on to the next host, otherwise to the next address
        bool wrap = false; size_t expect = (pi + 1) % cycle.size();
        if (pr.ok && (cycle[pi] >> 8 & 0xFF) == 0 && expect < cycle.size() && (cycle[expect] >> 8 & 0xFF) == 1) expect = (expect + 1) % cycle.size();
        wrap = expect <= pi;
        if (dns_varies) { // only the direction is fixed: moving backwards in the list is a wrap-around and needs the pause
            bool back = ci <= pi && !(pr.ok); if (back && pr.end >= 0 && a.start - pr.end < 500000000LL && !w.stopped_phase) { w.vio("C10:wrap-without-pause:" + sn, "attempts wrapped around the broker list without the back-off pause"); break; } continue; }
        if (ci != expect) { w.vio("C10:rotation-order:" + sn, "attempt " + std::to_string(k) + " went to endpoint #" + std::to_string(ci) + " of the list, expected #" + std::to_string(expect)); break; }
        if (pr.end < 0) continue;
        int64_t gap = a.start - pr.end;
        if (!wrap && gap != 0 && !pr.ok) { w.vio("C10:pause-inside-list:" + sn, "pause of " + std::to_string(gap / 1e9) + " s between attempts inside the broker list"); break; }
        if (wrap && (gap < 500000000LL || gap > 16500000000LL) && !w.stopped_phase && w.epoch == (w.sc.epilogue_cancel ? 1 : 0)) { w.vio("C10:wrap-pause-out-of-range:" + sn, "pause of " + std::to_string(gap / 1e9) + " s at wrap-around of the broker list (allowed 0.5-16.5 s)"); break; }
    }
}

// C11 (system half) -------------------------------------------------------------------------
static void mon_c11(World& w) {
    const std::string sn = w.sc.family();
    if (w.net->max_attempts_in_progress > 1) w.vio("C11:overlapping-attempts:" + sn, std::to_string(w.net->max_attempts_in_progress) + " connection attempts were in progress at the same time");
    if (w.net->connects_after_stop > 0) w.vio("C11:connect-after-cancel:" + sn, "a connection attempt started after cancel()");
    // a stale trigger (the stream it saw failing has been replaced meanwhile) must not start another attempt: an established
    // connection is only ever given up for a reason - transport failure, broker closing / DISCONNECT, the client's own
    // DISCONNECT (sentry, malformed packet, user), a read abandoned by its keep-alive timer, or the client being stopped
    for (size_t c = 0; c < w.net->conns.size() && c < w.broker->cs.size(); ++c) {
        const sim::Conn& conn = w.net->conns[c]; if (!w.broker->cs[c].handshake_ok || !conn.client_closed || conn.dead || conn.broker_closed) continue;
        auto& st = w.net->streams[conn.stream]; if (st->closed_ns < 0 && !st->shut) continue;
        if (st->read_cancelled_ns >= 0 || st->first_error_ns >= 0) continue;
        bool reason = false; size_t calen = 0; uint64_t b2c_total = 0;
        for (auto& e : w.broker->wire) if (e.conn == int(c)) { if (e.c2b && !e.malformed && e.pkt.type == ref::DISCONNECT) reason = true; if (!e.c2b && (e.malformed || e.pkt.type == ref::DISCONNECT)) reason = true; if (!e.c2b) { b2c_total += e.raw.size(); if (!calen && !e.malformed && e.pkt.type == ref::CONNACK) calen = b2c_total; } }
        if (conn.bytes_b2c_read < calen) continue;     // the client never saw the handshake complete
        int64_t t_close = st->closed_ns >= 0 ? st->closed_ns : w.now();
        for (auto ts : w.stop_times) if (ts <= t_close) reason = true;
        if (w.drain_result.done && st->closed_ns < 0) reason = true;
        if (w.t_epilogue >= 0 && t_close >= w.t_epilogue) reason = true;
        if (!reason) { w.vio("C11:healthy-connection-dropped:" + sn, "the client gave up established connection " + std::to_string(c) + " although nothing had failed on it (no transport error, no DISCONNECT either way, no keep-alive timeout, no stop): a stale reconnect trigger was acted upon"); break; }
    }
    mon_c02(w, "C11");
}

// C12 ---------------------------------------------------------------------------------------
static void mon_c12(World& w) {
    const Scenario& sc = w.sc; const std::string sn = sc.family(); auto& wire = w.broker->wire;
    for (size_t c = 0; c < w.broker->cs.size(); ++c) { auto& cs = w.broker->cs[c]; if (!cs.handshake_ok) continue;
        int K = sc.keep_alive; for (auto& q : cs.connack_props_sent) if (q.id == 0x13) K = int(q.num);
        int64_t Kns = int64_t(K) * 1000000000LL; const sim::Conn& conn = w.net->conns[c]; auto& st = w.net->streams[conn.stream];
        // time at which the client processed the CONNACK = the first read start after it / first activity
        int64_t t_ca = -1; { size_t calen = 0; for (auto& e : wire) if (e.conn == int(c) && !e.c2b && e.pkt.type == ref::CONNACK) { calen = e.raw.size(); break; } for (auto& m : conn.read_marks) if (m.first >= calen) { t_ca = m.second; break; } }
        if (t_ca < 0) continue;   // the client never read the CONNACK
        int64_t t_end = st->first_error_ns >= 0 ? st->first_error_ns : (st->closed_ns >= 0 ? st->closed_ns : w.now());
        if (st->shut && st->closed_ns < 0) t_end = w.now();
        // a PINGREQ is 'sent' when its write starts; the next interval runs from the completion of that write (transport latency excluded)
        std::vector<std::pair<int64_t, int64_t>> pings; for (auto& wl : w.net->wlog) if (wl.conn == int(c)) for (auto& pk : packets_in(wl.data)) if ((uint8_t(pk.second[0]) >> 4) == ref::PINGREQ) pings.emplace_back(wl.t_start, wl.t);
        if (st->write_parked && st->lw_data.size() >= 2 && (uint8_t(st->lw_data[0]) >> 4) == ref::PINGREQ) pings.emplace_back(st->lw_start_ns, w.now());
        if (K == 0) { if (!pings.empty()) { w.vio("C12:ping-with-keepalive-0:" + sn, "PINGREQ sent although the negotiated keep-alive is 0"); return; }
            continue; }
        int64_t prev = t_ca;
        // while an earlier write is still in progress the PINGREQ can only be queued: that wait is transport latency
        auto sender_busy_until = [&](int64_t due, int64_t start) { for (auto& wl : w.net->wlog) if (wl.conn == int(c) && wl.t_start <= due && wl.t >= start && wl.t_start < start) return true; return false; };
        for (auto& pg : pings) { int64_t t = pg.first; if (t - prev > Kns && !sender_busy_until(prev + Kns, t)) { w.vio("C12:ping-late:" + sn, "PINGREQ " + std::to_string((t - prev) / 1e9) + " s after the previous one / the CONNACK with keep-alive " + std::to_string(K)); return; } prev = pg.second; }
        // the connection stayed up longer than K after the last ping without a new one (only when nothing else disturbed it)
        bool disturbed = conn.dead || conn.broker_closed || w.hung_streams.count(st->id);   // a stalled write blocks the PINGREQ behind it: transport latency, not the client's doing
        if (!disturbed && t_end - prev > Kns && !st->write_parked) { w.vio("C12:ping-missing:" + sn, "no PINGREQ within " + std::to_string(K) + " s (connection idle for " + std::to_string((t_end - prev) / 1e9) + " s)"); return; }
    }
    // silence abandon: exactly 1.5 K after the last byte / the start of the read
    for (size_t c = 0; c < w.broker->cs.size(); ++c) { auto& cs = w.broker->cs[c]; if (!cs.handshake_ok) continue;
        int K = sc.keep_alive; for (auto& q : cs.connack_props_sent) if (q.id == 0x13) K = int(q.num);
        const sim::Conn& conn = w.net->conns[c]; auto& st = w.net->streams[conn.stream];
        // only connections whose handshake the client completed (it read the CONNACK in full) have a keep-alive regime
        int64_t t_ca2 = -1; { size_t calen = 0; for (auto& e : wire) if (e.conn == int(c) && !e.c2b && e.pkt.type == ref::CONNACK) { calen = e.raw.size(); break; } for (auto& m : conn.read_marks) if (m.first >= calen) { t_ca2 = m.second; break; } }
        if (t_ca2 < 0) continue;
        // abandoned for silence = the timed read was cancelled by its timer while nothing else was wrong with the connection
        int64_t t_abandon = st->read_cancelled_ns;
        bool abandoned_by_client = t_abandon >= 0 && !conn.dead && !conn.broker_closed && !w.broker->cs[c].disconnected && !(st->closed_ns >= 0 && st->closed_ns < t_abandon) && !(st->first_error_ns >= 0 && st->first_error_ns <= t_abandon);
        bool stopped_by_app = w.t_stop >= 0 && t_abandon >= w.t_stop;
        if (!abandoned_by_client || stopped_by_app || t_abandon < 0) {
            // still alive at the end: must not have been silent for more than 1.5 K
            if (K > 0 && !conn.dead && !conn.broker_closed && st->closed_ns < 0 && !st->shut && conn.last_read_ns >= 0 && w.t_stop < 0) {
                int64_t silent = w.now() - conn.last_read_ns; if (silent > int64_t(K) * 1500000000LL && st->read_parked) { w.vio("C12:silent-connection-kept:" + sn, "connection silent for " + std::to_string(silent / 1e9) + " s with keep-alive " + std::to_string(K) + " was not abandoned"); return; } }
            continue; }
        int64_t silent = t_abandon - std::max(conn.last_read_ns, conn.first_read_start_ns);
        if (K == 0) { w.vio("C12:abandoned-with-keepalive-0:" + sn, "the client abandoned a connection for silence although the keep-alive is 0"); return; }
        int64_t limit = int64_t(K) * 1500000000LL;
        if (silent < limit) { w.vio("C12:abandoned-early:" + sn, "connection abandoned after " + std::to_string(silent / 1e9) + " s of silence, keep-alive " + std::to_string(K) + " (1.5 K = " + std::to_string(limit / 1e9) + " s)"); return; }
        if (silent > limit) { w.vio("C12:abandoned-late:" + sn, "connection abandoned only after " + std::to_string(silent / 1e9) + " s of silence, keep-alive " + std::to_string(K)); return; }
    }
}

// C13 ---------------------------------------------------------------------------------------
static void mon_c13(World& w) {
    const std::string sn = w.sc.family(); auto& wire = w.broker->wire;
    // reference: replay the broker's handshake history and the successful subscriptions
    struct Ev { size_t mark; int kind; int conn; };   // kind 0 = successful subscription (by completion mark), 1 = handshake (sp), 2 = handshake (no sp)
    std::vector<Ev> evs;
    for (auto& o : w.ops) if (o.kind == Action::SUB && o.completions && !o.ec) { bool ok = false; for (auto c : o.rcs) if (c < 0x80) ok = true; if (ok) evs.push_back({o.wire_mark_done, 0, -1}); }
    // only handshakes the client completed count: the CONNACK must have been read in full
    int hs = 0; for (size_t i = 0; i < wire.size(); ++i) { auto& e = wire[i]; if (!e.c2b && !e.malformed && e.pkt.type == ref::CONNACK && e.pkt.rc == 0) {
        bool read_full = false; for (auto& m : w.net->conns[e.conn].read_marks) if (m.first >= e.raw.size()) read_full = true; if (!read_full) continue;
        hs++; evs.push_back({i, e.pkt.session_present ? 1 : 2, e.conn}); } }
    std::stable_sort(evs.begin(), evs.end(), [](const Ev& a, const Ev& b) { return a.mark < b.mark; });
    bool subs = false; int expected = 0; bool first = true; std::vector<int> expire_conns;
    for (auto& e : evs) { if (e.kind == 0) subs = true; else { if (!first && e.kind == 2 && subs) { expected++; subs = false; expire_conns.push_back(e.conn); } else if (e.kind == 2) { /* nothing to report */ } first = false; } }
    // was every CONNACK actually consumed by the client? only count handshakes the client completed: approximate by requiring a later client packet or a parked read on that connection
    int got = 0; std::vector<const OpRec*> recvs; for (auto& o : w.ops) if (o.kind == Action::RECV && o.completions) recvs.push_back(&o);
    std::sort(recvs.begin(), recvs.end(), [](const OpRec* a, const OpRec* b) { return a->recv_seq < b->recv_seq; });
    for (auto* r : recvs) if (r->ec.value() == 102 /* client::error::session_expired */ && r->ec != asio::error::operation_aborted) got++;
    if (got > expected) w.vio("C13:spurious-session-expired:" + sn, std::to_string(got) + " session_expired reports, reference expects " + std::to_string(expected));
    if (got < expected && !w.capped) {
        // the last expected report may still be undelivered only if its CONNACK was never read by the client
        int deliverable = 0; for (int c : expire_conns) { bool read = w.net->conns[c].bytes_b2c_read > 0; if (read) deliverable++; }
        bool receiving = false; for (auto& o : w.ops) if (o.kind == Action::RECV) receiving = true;
        if (receiving && got < deliverable) w.vio("C13:missing-session-expired:" + sn, std::to_string(got) + " session_expired reports, reference expects " + std::to_string(deliverable));
    }
    // ordering: the report precedes any message the broker sent on the new connection
    for (size_t k = 0; k < recvs.size(); ++k) { if (recvs[k]->ec.value() != 102) continue; }
    std::map<std::string, int> conn_of_msg; for (auto& e : wire) if (!e.c2b && !e.malformed && e.pkt.type == ref::PUBLISH) if (!conn_of_msg.count(e.pkt.payload)) conn_of_msg[e.pkt.payload] = e.conn;
    int reports_seen = 0;
    for (auto* r : recvs) { if (r->ec.value() == 102) { reports_seen++; continue; } if (r->ec) continue; auto it = conn_of_msg.find(r->r_payload); if (it == conn_of_msg.end()) continue;
        int need = 0; for (size_t i = 0; i < expire_conns.size(); ++i) if (expire_conns[i] <= it->second) need = int(i) + 1;
        if (reports_seen < need) { w.vio("C13:message-before-session-expired:" + sn, "a message of the new session was delivered before the session_expired report"); break; } }
}

// C14 ---------------------------------------------------------------------------------------
static void mon_c14(World& w) {
    const std::string sn = w.sc.family(); auto& wire = w.broker->wire;
    for (auto& o : w.ops) { if ((o.kind != Action::SUB && o.kind != Action::UNSUB) || !o.completions || o.ec) continue;
        int reqt = o.kind == Action::SUB ? ref::SUBSCRIBE : ref::UNSUBSCRIBE, ackt = o.kind == Action::SUB ? ref::SUBACK : ref::UNSUBACK; size_t n = o.filters.size();
        bool ok = false; std::string why = "the broker never received the request with exactly the given topics, options and properties";
        for (size_t i = 0; i < o.wire_mark_done && !ok; ++i) { auto& e = wire[i]; if (!e.c2b || e.malformed || e.pkt.type != reqt) continue;
            bool same = e.pkt.filters.size() == n && ref::props_equal(e.pkt.props, o.props); for (size_t k = 0; same && k < n; ++k) if (e.pkt.filters[k].first != o.filters[k].first || (reqt == ref::SUBSCRIBE && e.pkt.filters[k].second != o.filters[k].second)) same = false;
            if (!same) continue; why = "no well-formed acknowledgement with the request's packet id and the handler's reason codes was sent before the completion";
            for (size_t j = i + 1; j < o.wire_mark_done && !ok; ++j) { auto& a = wire[j]; if (a.c2b || a.pkt.type != ackt || a.pkt.pid != e.pkt.pid) continue;
                if (a.malformed || a.raw_hostile) continue;
                if (a.conn >= int(o.read_at_done.size()) || a.b2c_end > o.read_at_done[a.conn]) continue;   // not read yet
                if (a.pkt.rcs.size() != n) continue; bool adm = true; for (auto c : a.pkt.rcs) if (!ref::rc_listed(ackt, c)) adm = false; if (!adm) continue;
                if (a.pkt.rcs == o.rcs && ref::props_equal(a.pkt.props, o.rprops)) ok = true; else why = "handler reason codes / properties differ from the acknowledgement's"; } }
        if (o.rcs.size() != n) { ok = false; why = "handler received " + std::to_string(o.rcs.size()) + " reason codes for " + std::to_string(n) + " topics"; }
        if (!ok) w.vio("C14:unfaithful-success:" + opname(o) + ":" + sn, opname(o) + " completed without error but " + why);
    }
}

// C15 / C16 (API level) -----------------------------------------------------------------------
static void mon_reject(World& w, const char* prop) {
    const std::string sn = w.sc.family(); std::string P = prop;
    for (auto& o : w.ops) { if (!o.expect_reject) continue;
        std::string what = opname(o) + ":" + std::to_string(o.tag);
        if (o.completions == 0) { w.vio(P + ":reject-not-completed:" + sn, "request " + what + " that must be rejected never completed"); continue; }
        if (!o.ec) { w.vio(P + ":accepted-invalid:" + opname(o) + ":" + sn, "request " + what + " was accepted although it must be rejected locally"); continue; }
        if (o.expect_ec && o.ec.value() != o.expect_ec) w.vio(P + ":wrong-error:" + opname(o) + ":" + std::to_string(o.expect_ec) + ":" + sn, "request " + what + " completed with '" + o.ec.message() + "' (" + std::to_string(o.ec.value()) + ") instead of error " + std::to_string(o.expect_ec));
        if (!o.done_in_same_step) w.vio(P + ":reject-not-immediate:" + sn, "rejected request " + what + " did not complete immediately");
        if (o.lowest_free_id_before >= 0 && o.lowest_free_id_after != o.lowest_free_id_before) w.vio(P + ":id-leaked:" + sn, "rejected request " + what + " changed the packet id allocator (lowest free id " + std::to_string(o.lowest_free_id_before) + " -> " + std::to_string(o.lowest_free_id_after) + ")");
        if (o.out_volume_after && o.out_volume_after != o.out_volume_before) w.vio(P + ":bytes-written:" + sn, "rejected request " + what + " put bytes on the wire");
    }
    // accepted requests must really be accepted
    for (auto& o : w.ops) { if (o.expect_reject || !is_user_op(o) || o.kind == Action::DISC) continue; if (o.completions && o.ec && o.ec != asio::error::operation_aborted && o.ec.value() >= 100 && o.ec.value() < 120)
        w.vio(P + ":rejected-valid:" + opname(o) + ":" + std::to_string(o.ec.value()) + ":" + sn, "valid request " + opname(o) + ":" + std::to_string(o.tag) + " was rejected with '" + o.ec.message() + "'"); }
}
static void mon_c15(World& w) {
    const std::string sn = w.sc.family(); auto& wire = w.broker->wire;
    for (auto& e : wire) { if (!e.c2b || e.malformed) continue; auto& cs = w.broker->cs[e.conn]; if (!cs.handshake_ok) continue;
        int max_qos = 2, retain_av = 1, alias_max = 0, wild = 1, shared = 1, subid = 1; uint32_t max_size = 0xFFFFFFFFu;
        for (auto& q : cs.connack_props_sent) { if (q.id == 0x24) max_qos = int(q.num); if (q.id == 0x25) retain_av = int(q.num); if (q.id == 0x22) alias_max = int(q.num); if (q.id == 0x28) wild = int(q.num); if (q.id == 0x2A) shared = int(q.num); if (q.id == 0x29) subid = int(q.num); if (q.id == 0x27) max_size = q.num; }
        if (e.pkt.type == ref::CONNECT) continue;
        // only packets that stem from requests initiated while this connection's CONNACK was held: all scenario requests wait for the handshake
        if (e.raw.size() > max_size) { w.vio("C15:packet-too-large-sent:" + std::string(ref::ptype_name(e.pkt.type)) + ":" + sn, std::string(ref::ptype_name(e.pkt.type)) + " of " + std::to_string(e.raw.size()) + " bytes exceeds the Maximum Packet Size " + std::to_string(max_size)); return; }
        if (e.pkt.type == ref::PUBLISH) { if (e.pkt.qos() > max_qos) { w.vio("C15:qos-above-maximum:" + sn, "PUBLISH with QoS " + std::to_string(e.pkt.qos()) + " sent, Maximum QoS " + std::to_string(max_qos)); return; }
            if (e.pkt.retain() && !retain_av) { w.vio("C15:retain-sent:" + sn, "retained PUBLISH sent although Retain Available = 0"); return; }
            for (auto& q : e.pkt.props) if (q.id == 0x23 && int(q.num) > alias_max) { w.vio("C15:topic-alias-above-maximum:" + sn, "Topic Alias " + std::to_string(q.num) + " sent, Topic Alias Maximum " + std::to_string(alias_max)); return; } }
        if (e.pkt.type == ref::SUBSCRIBE) { for (auto& f : e.pkt.filters) { bool sh = f.first.compare(0, 7, "$share/") == 0; bool wc = f.first.find_first_of("#+") != std::string::npos;
                if (sh && !shared) { w.vio("C15:shared-subscription-sent:" + sn, "shared subscription sent although the broker disabled it"); return; }
                if (wc && !wild) { w.vio("C15:wildcard-subscription-sent:" + sn, "wildcard subscription sent although the broker disabled it"); return; } }
            for (auto& q : e.pkt.props) if (q.id == 0x0B && !subid) { w.vio("C15:subscription-identifier-sent:" + sn, "Subscription Identifier sent although the broker disabled it"); return; } }
    }
    mon_reject(w, "C15");
}

// C04 ---------------------------------------------------------------------------------------
// true if the client wrote an acknowledgement (type t, id pid) in a write that was reported as failed to it
// although the broker received that acknowledgement
static bool ack_delivered_but_write_failed(World& w, int t, uint16_t pid) {
    for (auto& wl : w.net->wlog) { if (wl.ok) continue; for (auto& pk : packets_in(wl.data)) { auto r = ref::decode(pk.second); if (r.st != ref::D_OK || r.pkt.type != t || r.pkt.pid != pid) continue;
            for (auto& e : w.broker->wire) if (e.c2b && !e.malformed && e.conn == wl.conn && e.pkt.type == t && e.pkt.pid == pid) return true; } }
    return false;
}
static void mon_c04(World& w) {
    const std::string sn = w.sc.family(); auto& wire = w.broker->wire;
    if (w.capped && w.cap_reason.rfind("REPLAY", 0) == 0) return;
    // ack discipline per connection
    for (size_t c = 0; c < w.broker->cs.size(); ++c) {
        std::map<uint16_t, int> st;   // pid -> 1 PUBLISH q2 seen (await PUBREC), 2 PUBREC seen, 3 PUBREL sent
        for (auto& e : wire) { if (e.conn != int(c) || e.malformed) continue; auto& p = e.pkt;
            if (!e.c2b && p.type == ref::PUBLISH && p.qos() == 2) { if (!st.count(p.pid) || st[p.pid] == 0) st[p.pid] = 1; }
            if (!e.c2b && p.type == ref::PUBREL) st[p.pid] = 3;
            if (e.c2b && p.type == ref::PUBCOMP) { if (st[p.pid] != 3) { w.vio("C04:pubcomp-before-pubrel:" + sn, "PUBCOMP for id " + std::to_string(p.pid) + " written before a PUBREL was received on this connection"); return; } st[p.pid] = 0; } }
    }
    // every message the client has fully read must be acknowledged / every PUBREL answered, by the end of the fault-free suffix
    bool session_lost_after = false;
    for (auto& kv : w.broker->sessions) for (auto& m : kv.second.out) {
        if (m.qos == 0 || m.st == bkr::OutMsg::DONE || m.st == bkr::OutMsg::QUEUED) continue;
        if (m.qos == 2 && m.st == bkr::OutMsg::PUBREC_RCVD && ack_delivered_but_write_failed(w, ref::PUBREC, m.pid)) {
            w.vio("C04:pubrel-never-answered-after-failed-pubrec-write", "QoS 2 message tag " + std::to_string(m.tag) + ": the PUBREC reached the broker but its write was reported as failed to the client; the client forgot the exchange, every PUBREL of the broker stays unanswered and the message is never delivered (" + sn + ")"); return; }
        if (m.qos == 2 && m.st == bkr::OutMsg::PUBREC_RCVD) {
            // did the client already write a PUBCOMP for this exchange (lost on the way) and later leave a retransmitted PUBREL unanswered?
            int comp_conn = -1; size_t comp_mark = 0, rel_after = SIZE_MAX;
            for (auto& wl : w.net->wlog) { if (comp_conn >= 0) break; for (auto& pk : packets_in(wl.data)) { auto r = ref::decode(pk.second); if (r.st == ref::D_OK && r.pkt.type == ref::PUBCOMP && r.pkt.pid == m.pid) { comp_conn = wl.conn; comp_mark = wl.wire_mark; break; } } }
            if (comp_conn >= 0) for (size_t i = 0; i < wire.size(); ++i) { auto& e = wire[i]; if (!e.malformed && !e.c2b && e.pkt.type == ref::PUBREL && e.pkt.pid == m.pid && e.conn > comp_conn) rel_after = i; }
            (void)comp_mark;
            if (rel_after != SIZE_MAX && w.net->conns[wire[rel_after].conn].bytes_b2c_read > 0) {
                w.vio("C04:retransmitted-pubrel-never-answered", "QoS 2 message tag " + std::to_string(m.tag) + ": the client's PUBCOMP was lost with the connection; the broker retransmitted PUBREL on the next connection and the client never answered it (" + sn + ")"); return; } }
        w.vio("C04:exchange-not-finished:q" + std::to_string(m.qos) + ":" + sn, "broker message tag " + std::to_string(m.tag) + " (QoS " + std::to_string(m.qos) + ") was still " + (m.st == bkr::OutMsg::SENT ? "unacknowledged" : "waiting for PUBCOMP") + " at the end of the fault-free suffix"); return; }
    (void)session_lost_after;
    // delivery: content, order per QoS level, QoS 2 exactly once, QoS 1 at least once
    std::vector<const OpRec*> recvs; for (auto& o : w.ops) if (o.kind == Action::RECV && o.completions && !o.ec) recvs.push_back(&o);
    std::sort(recvs.begin(), recvs.end(), [](const OpRec* a, const OpRec* b) { return a->recv_seq < b->recv_seq; });
    std::map<std::string, const bkr::OutMsg*> by_payload; std::vector<const bkr::OutMsg*> sent;
    for (auto& kv : w.broker->sessions) for (auto& m : kv.second.out) { by_payload[m.payload] = &m; sent.push_back(&m); }
    // messages of sessions that were discarded are remembered by the broker model in lost_out
    for (auto& m : w.broker->lost_out) { by_payload[m.payload] = &m; }
    std::map<int, int> count; int last_idx[3] = {-1, -1, -1};
    std::map<const bkr::OutMsg*, int> order; { int i = 0; for (auto& m : w.broker->lost_out) order[&m] = i++; for (auto* m : sent) order[m] = i++; }
    for (auto* r : recvs) { auto it = by_payload.find(r->r_payload);
        if (it == by_payload.end()) { w.vio("C04:unknown-message:" + sn, "async_receive delivered a message the broker never sent"); return; }
        const bkr::OutMsg* m = it->second;
        if (r->r_topic != m->topic || !ref::props_equal(r->rprops, m->props)) { w.vio("C04:message-differs:" + sn, "message tag " + std::to_string(m->tag) + " reached async_receive with a different topic or properties"); return; }
        count[m->tag]++;
        if (m->qos == 2 && count[m->tag] > 1) {
            // history class: the broker retransmitted the PUBLISH (DUP) while the exchange created for its first transmission was still
            // waiting for the PUBREL; both exchange objects went through PUBREL/PUBCOMP (two PUBCOMP written for the id) and both delivered
            int pubcomps = 0; for (auto& wl : w.net->wlog) for (auto& pk : packets_in(wl.data)) { auto r2 = ref::decode(pk.second); if (r2.st == ref::D_OK && r2.pkt.type == ref::PUBCOMP && r2.pkt.pid == m->pid) pubcomps++; }
            bool dup_seen = false; for (auto& e : w.broker->wire) if (!e.c2b && !e.malformed && e.pkt.type == ref::PUBLISH && e.pkt.payload == m->payload && e.pkt.dup()) dup_seen = true;
            if (dup_seen && pubcomps >= 2 && m->transmissions >= 2) w.vio("C04:qos2-duplicate-two-exchanges-for-one-id", "QoS 2 message tag " + std::to_string(m->tag) + " was handed to the application twice: a DUP retransmission created a second exchange while the first still awaited PUBREL, and both completed (" + sn + ")");
            else w.vio("C04:qos2-duplicate:" + sn, "QoS 2 message tag " + std::to_string(m->tag) + " was handed to the application twice");
            return; }
        int idx = order[m]; if (count[m->tag] == 1) { if (idx < last_idx[m->qos]) { w.vio("C04:order:q" + std::to_string(m->qos) + ":" + sn, "QoS " + std::to_string(m->qos) + " message tag " + std::to_string(m->tag) + " was received before an earlier one of the same QoS"); return; } last_idx[m->qos] = idx; } }
    bool receiving = false; for (auto& o : w.ops) if (o.kind == Action::RECV) receiving = true;
    if (!receiving || w.capped) return;
    size_t pending_recv = 0; for (auto& o : w.ops) if (o.kind == Action::RECV && o.completions == 0) pending_recv++;
    for (auto* m : sent) { if (m->st != bkr::OutMsg::DONE) continue; if (m->qos == 0) continue;
        if (count[m->tag] == 0 && ack_delivered_but_write_failed(w, m->qos == 1 ? ref::PUBACK : ref::PUBCOMP, m->pid)) {
            w.vio(std::string("C04:message-lost-when-final-ack-write-fails-after-delivery:q") + std::to_string(m->qos), "QoS " + std::to_string(m->qos) + " message tag " + std::to_string(m->tag) + ": the " + (m->qos == 1 ? "PUBACK" : "PUBCOMP") + " reached the broker but its write was reported as failed to the client; the client dropped the message without handing it to async_receive and the broker will not retransmit it (" + sn + ")"); return; }
        if (count[m->tag] == 0) { w.vio("C04:settled-not-delivered:q" + std::to_string(m->qos) + ":" + sn, "QoS " + std::to_string(m->qos) + " message tag " + std::to_string(m->tag) + " was acknowledged to the broker but never reached async_receive"); return; } }
}

// C20 (client level): a reason byte in an acknowledgement is accepted iff MQTT 5 lists it for that packet type ------------
static void mon_c20(World& w) {
    const Scenario& sc = w.sc; if (sc.rc_code < 0) return; const std::string sn = sc.family();
    if (w.capped && w.cap_reason.rfind("REPLAY", 0) == 0) return;
    uint8_t code = uint8_t(sc.rc_code); int t = sc.rc_type;
    bool listed = ref::rc_listed(t, code), must = ref::rc_server_may_send(t, code);
    // accepted <=> the client neither disconnected nor reconnected: exactly one handshake and no DISCONNECT written
    bool disconnect_written = false; for (auto& e : w.broker->wire) if (e.c2b && !e.malformed && e.pkt.type == ref::DISCONNECT) disconnect_written = true;
    bool accepted = w.broker->handshakes_ok == 1 && !disconnect_written;
    char cs[8]; snprintf(cs, sizeof cs, "%02x", code);
    if (accepted && !listed) w.vio(std::string("C20:client-accepts-unlisted:") + ref::ptype_name(t), std::string(ref::ptype_name(t)) + " with reason code 0x" + cs + " (not listed by MQTT 5 for this packet) was accepted by the client");
    if (!accepted && must) w.vio(std::string("C20:client-rejects-server-code:") + ref::ptype_name(t), std::string(ref::ptype_name(t)) + " with reason code 0x" + cs + " (a Server may send it) was treated as malformed");
    // an accepted code is reported with exactly that value
    const OpRec* op = nullptr; for (auto& o : w.ops) if (is_user_op(o)) { op = &o; break; }
    if (accepted && op && op->completions) {
        int seen = -1;
        if (t == ref::PUBACK || t == ref::PUBCOMP || (t == ref::PUBREC && code >= 0x80)) seen = op->rc;
        if ((t == ref::SUBACK || t == ref::UNSUBACK) && !op->rcs.empty()) seen = op->rcs[0];
        if (seen >= 0 && seen != code) w.vio(std::string("C20:value-changed:") + ref::ptype_name(t), std::string(ref::ptype_name(t)) + " reason code 0x" + cs + " reached the handler as " + std::to_string(seen));
    }
}

void run_monitors(World& w) {
    uint32_t m = w.sc.monitors;
    mon_broker(w);
    if (m & M_C01) mon_c01(w);
    if ((m & M_C02) && !w.broker->starving_connack) mon_c02(w, "C02");
    if (m & M_C03) mon_c03(w);
    if (m & M_C05) mon_c05(w);
    if (m & M_C06) mon_c06(w);
    if (m & M_C07) mon_c07(w);
    if (m & M_C08) mon_c08(w);
    if (m & M_C04) mon_c04(w);
    if (m & M_C05) mon_c05_stop(w);
    if (m & M_C09) mon_c09(w);
    if (m & M_C10) mon_c10(w);
    if (m & M_C11) mon_c11(w);
    if (m & M_C12) mon_c12(w);
    if (m & M_C13) mon_c13(w);
    if (m & M_C14) mon_c14(w);
    if (m & M_C15) mon_c15(w);
    if (m & M_C16) mon_reject(w, "C16");
    if (m & M_C20) mon_c20(w);
    if (m & M_C19) mon_c19(w);
}

// ------------------------------------------------------------------ scenario sets
// sixteen requests that a broker with restrictive_caps() makes the client reject locally (C15/C16), with the documented error
static ref::Props restrictive_caps() { return {ref::pnum(0x27, 60), ref::pnum(0x24, 1), ref::pnum(0x25, 0), ref::pnum(0x22, 2), ref::pnum(0x28, 0), ref::pnum(0x29, 0), ref::pnum(0x2A, 0)}; }
static std::vector<Action> rejected_requests(int tag) {
    std::vector<Action> rej;
    auto R_ = [&](Action a, int ec) { a.tag = tag++; if (a.k == Action::PUB) a.payload = "payload-" + std::to_string(a.tag); a.expect_reject = true; a.expect_ec = ec; rej.push_back(a); };
    { Action a = PUB(0, 0); a.topic = "bad/#"; R_(a, 104); } { Action a = PUB(1, 0); a.topic = ""; R_(a, 104); } R_(PUB(2, 0), 105); R_(PUB(0, 0, true), 106); R_(PUB(0, 0, false, {ref::pnum(0x23, 3)}), 107);
    { Action a = PUB(1, 0); a.topic = std::string(100, 't'); R_(a, 101); } { Action a = PUB(0, 0, false, {ref::pnum(0x01, 1)}); a.payload = "\xC0\x20"; a.tag = tag++; a.expect_reject = true; a.expect_ec = 100; rej.push_back(a); }
    R_(SUB({{"w/#", 1}}), 108); R_(SUB({{"$share/g/t", 1}}), 110); R_(SUB({{"p", 1}}, {ref::pnum(0x0B, 5)}), 109); R_(SUB({{std::string(100, 'f'), 1}}), 101); R_(SUB({{"a//\x01", 1}}), 104); R_(SUB({}), 104);
    R_(UNSUB({std::string(100, 'u')}), 101); R_(UNSUB({"bad/#/x"}), 104); R_(UNSUB({}), 104);
    return rej;
}

static std::vector<Scenario> publish_scenarios(uint32_t mon, int tier, uint32_t fam_extra = 0) {
    std::vector<Scenario> v; uint32_t fam = RECOVERABLE | SCHED | fam_extra | (tier ? F_BYTE : 0);
    ref::Props pp = {ref::pnum(0x01, 1), ref::pstr(0x03, "text/plain"), ref::ppair("tag", "x")};
    { auto s = base("P1-qos1", {RUN(), PUB(1, 1, false, pp)}, fam, tier ? 3 : 2, mon); s.broker.ack_props = true; s.broker.puback_rc = 0x10; v.push_back(s); }
    { auto s = base("P2-qos2", {RUN(), PUB(2, 1, true, pp)}, fam, tier ? 3 : 2, mon); s.broker.ack_props = true; v.push_back(s);
      // PUBREC 0x10 (No matching subscribers) is a success code: the exchange goes on to PUBREL / PUBCOMP and the handler reports the PUBCOMP
      s.name = "P2-qos2-pubrec-0x10"; s.broker.pubrec_rc = 0x10; s.D = tier ? 2 : 1; v.push_back(s); }
    // an inbound QoS 2 exchange uses the same packet id (both sides start at 1) while the client's own publishes are in flight
    { auto s = base("P10-inbound-qos2-same-id", {RUN(), RECV(2), SUB({{"b/#", 2}}), BARRIER(), BPUB(2, 100), PUB(1, 1, false, pp), PUB(2, 2, true, pp)}, (fam | F_REORDER) & ~(F_WRSHORT | F_CHUNK), tier ? 2 : 1, mon); s.broker.ack_props = true; s.broker.puback_rc = 0x10; s.expect_all_success = false; v.push_back(s); }
    { auto s = base("P3-burst-121", {RUN(), PUB(1, 1), PUB(2, 2), PUB(1, 3)}, fam & ~(F_WRSHORT), tier ? 2 : 1, mon); v.push_back(s); }
    { auto s = base("P4-sequential-id-reuse", {RUN(), PUB(1, 1), BARRIER(), PUB(2, 2), BARRIER(), PUB(1, 3)}, fam & ~(F_WRSHORT | F_CHUNK | F_NOREPLY | F_LOSS | F_HS | F_CONN), tier ? 3 : 2, mon); v.push_back(s); }
    { auto s = base("P8-same-qos-id-reuse", {RUN(), PUB(1, 1), BARRIER(), PUB(1, 2), BARRIER(), PUB(2, 3), BARRIER(), PUB(2, 4)}, F_WR | F_REORDER | F_RDCUT | F_TAIL | F_DELAY | F_BCLOSE, tier ? 3 : 2, mon); s.broker.ack_props = true; v.push_back(s); }
    { auto s = base("P9-finenet-121", {RUN(), PUB(1, 1), PUB(2, 2), PUB(1, 3)}, F_FINENET | F_REORDER | F_WR | F_RDCUT, 2, mon); s.broker.ack_props = true; v.push_back(s); s.name = "P9-finenet-rm1"; s.broker.connack_props = {ref::pnum(0x21, 1)}; v.push_back(s); s.name = "P9-finenet-tcp"; s.flavour = 1; v.push_back(s); }
    { auto s = base("P5-qos2-failing-pubrec", {RUN(), PUB(2, 1), PUB(1, 2)}, fam & ~(F_WRSHORT | F_CHUNK), tier ? 2 : 1, mon); s.broker.pubrec_rc = 0x97; v.push_back(s); }
    { auto s = base("P6-tcp-qos1-qos2", {RUN(), PUB(1, 1), PUB(2, 2)}, fam & ~(F_WRSHORT | F_CHUNK), tier ? 2 : 1, mon); s.flavour = 1; v.push_back(s); }
    { auto s = base("P7-two-brokers", {RUN(), PUB(1, 1), PUB(2, 2)}, F_CONN | F_HS | F_WR | F_RDCUT | F_BCLOSE, tier ? 3 : 2, mon); s.hosts = "b0,b1"; v.push_back(s); }
    return v;
}

std::vector<Scenario> scenarios_for(const std::string& prop, int tier) {
    std::vector<Scenario> v;
    if (prop == "C01") v = publish_scenarios(M_C01, tier);
    else if (prop == "C02") {
        v = publish_scenarios(M_C02, tier);
        { auto s = base("L3-subscribe", {RUN(), SUB({{"a/b", 1}, {"c/#", 2}})}, RECOVERABLE | SCHED, tier ? 3 : 2, M_C02); v.push_back(s); }
        { auto s = base("L4-unsubscribe", {RUN(), SUB({{"a/b", 1}}), BARRIER(), UNSUB({"a/b"})}, RECOVERABLE | F_REORDER, tier ? 2 : 1, M_C02); v.push_back(s); }
        { auto s = base("L6-rm1-121", {RUN(), PUB(1, 1), PUB(2, 2), PUB(1, 3)}, RECOVERABLE | F_REORDER | F_DELAY, 2, M_C02); s.broker.connack_props = {ref::pnum(0x21, 1)}; v.push_back(s); }
        { auto s = base("L7-rm2-2121", {RUN(), PUB(2, 1), PUB(1, 2), PUB(2, 3), PUB(1, 4)}, RECOVERABLE & ~(F_CONN | F_HS), tier ? 2 : 2, M_C02); s.broker.connack_props = {ref::pnum(0x21, 2)}; v.push_back(s); }
        { auto s = base("L5-mixed", {RUN(), PUB(1, 1), SUB({{"x", 0}}), PUB(2, 2), UNSUB({"y"})}, RECOVERABLE | F_REORDER, tier ? 2 : 1, M_C02); v.push_back(s); }
        // the broker sends a malformed packet in the middle of traffic: the client disconnects (its DISCONNECT may itself fail) and must come back and finish everything
        { int k = 0; for (auto& raw : {std::string("\x00\x05\x1f\x00\x02\x6f\x6b", 7), std::string("\x30\x05\x00\x01\x74\x01\x0b", 7), std::string("\x40\x01\x00", 3)}) { Action b = A(Action::BRAW); b.payload = raw;
              auto s = base("L9-malformed-in-traffic-" + std::to_string(k++), {RUN(), WAIT_HS(1), PUB(1, 1), b, PUB(2, 2), SUB({{"x", 1}})}, RECOVERABLE | F_REORDER, 2, M_C02); v.push_back(s); } }
        { auto s = base("L8-refused-in-between", {RUN(), PUB(1, 1), PUB(2, 2), SUB({{"x", 1}})}, RECOVERABLE | F_REORDER, 2, M_C02 | M_C03); s.broker.connack_rc_script = {0, 0x89, 0, 0x89, 0}; v.push_back(s); }
    }
    else if (prop == "C03") {
        uint32_t fam = RECOVERABLE | SCHED | (tier ? F_BYTE : 0);
        { auto s = base("X1-qos2", {RUN(), PUB(2, 1)}, fam, tier ? 4 : 2, M_C03); if (tier) s.fam &= ~F_BYTE; v.push_back(s); if (tier) { s.name = "X1-qos2-bytecuts"; s.fam |= F_BYTE; s.D = 3; v.push_back(s); } }
        { auto s = base("X2-qos2-between-qos1", {RUN(), PUB(1, 1), PUB(2, 2), PUB(1, 3)}, fam & ~(F_WRSHORT | F_CHUNK), tier ? 2 : 2, M_C03); v.push_back(s); }
        // per-operation cancellation of the QoS 2 publish at any point does not end the protocol exchange once PUBREC was consumed
        { auto s = base("X4-qos2-cancelled", {RUN(), slot(PUB(2, 1)), PUB(2, 2)}, (fam & ~(F_WRSHORT | F_CHUNK)) | F_INJECT, tier ? 3 : 2, M_C03); s.inject = SIGNAL(1, 1); s.expect_all_success = false; v.push_back(s); }
        { auto s = base("X3-qos2-tcp", {RUN(), PUB(2, 1), PUB(2, 2)}, fam & ~(F_WRSHORT | F_CHUNK), tier ? 2 : 1, M_C03); s.flavour = 1; v.push_back(s); }
    }
    else if (prop == "C06") {
        uint32_t fam = F_WR | F_TAIL | F_RDCUT | F_BCLOSE | F_REORDER | F_DELAY | F_LOSS | (tier ? F_CONN | F_HS : 0);
        auto rm = [](Scenario s, int n) { s.broker.connack_props = {ref::pnum(0x21, uint32_t(n))}; s.name += "-rm" + std::to_string(n); return s; };
        auto s111 = base("O-111", {RUN(), PUB(1, 1), PUB(1, 2), PUB(1, 3)}, fam, 2, M_C06);
        auto s121 = base("O-121", {RUN(), PUB(1, 1), PUB(2, 2), PUB(1, 3)}, fam, 2, M_C06);
        auto s012 = base("O-012", {RUN(), PUB(0, 1), PUB(1, 2), PUB(2, 3)}, fam, 2, M_C06);
        auto s2121 = base("O-2121", {RUN(), PUB(2, 1), PUB(1, 2), PUB(2, 3), PUB(1, 4)}, fam, tier ? 2 : 1, M_C06);
        auto late = base("O-late-publish", {RUN(), PUB(1, 1), PUB(2, 2), WAIT_HS(2), PUB(1, 3), PUB(0, 4)}, fam, 2, M_C06);
        late.may_end_early = true;   // its WAIT_HS(2) is only reached when a fault makes the client reconnect
        for (auto& s : {s111, s121, s012, s2121, late}) { v.push_back(s); v.push_back(rm(s, 1)); v.push_back(rm(s, 2)); }
        // serial-number distance: many publishes are initiated between two that are still pending when the connection is lost
        for (int gap : (tier ? std::vector<int>{300, 40000, 70000} : std::vector<int>{300})) { Action m = A(Action::PUBMANY); m.qos = 0; m.tag = 100000; m.n = gap;
            Scenario s = base("O-gap-" + std::to_string(gap), {RUN(), WAIT_HS(1), PUB(1, 1), m, PUB(2, 2), PUB(1, 3), A(Action::KILLCONN), WAIT_HS(2)}, 0, 0, M_C06); s.broker.hold_publish_acks = true; s.broker.hold_acks_first_conns = 1; s.max_steps = 400; v.push_back(s); }
        // a large backlog queued while the first connection is being established goes out in initiation order
        { Action m = A(Action::PUBMANY); m.qos = 1; m.tag = 200000; m.n = tier ? 3000 : 1000; Scenario s = base("O-backlog-while-connecting", {chain(RUN()), m}, 0, 0, M_C06); s.max_steps = 200 + 3 * m.n; v.push_back(s); }
        // the Receive Maximum differs from one connection to the next (announced -> absent, absent -> announced, 2 -> 1)
        { int k = 0; for (auto& seq : std::vector<std::vector<int>>{{1, 0}, {0, 1}, {2, 1}, {1, 0, 1}}) for (auto* b : {&s012, &s2121, &late}) { Scenario s = *b; s.name += "-rmseq" + std::to_string(k);
              for (int r : seq) s.broker.connack_props_script.push_back(r ? ref::Props{ref::pnum(0x21, uint32_t(r))} : ref::Props{}); s.fam |= F_CONN; v.push_back(s); } k++; }
        { auto s = s121; s.name = "O-121-serial-wrap"; s.initial_last_serial = 0xFFFFFFFDu; v.push_back(s); v.push_back(rm(s, 1)); }
        { auto s = s2121; s.name = "O-2121-serial-wrap"; s.initial_last_serial = 0xFFFFFFFEu; v.push_back(s); }
        if (tier) for (auto& s : v) if (s.script.size() <= 4) s.D = 3;
    }
    else if (prop == "C07") {
        uint32_t fam = F_WR | F_TAIL | F_RDCUT | F_BCLOSE | F_REORDER | F_DELAY | F_NOREPLY | F_LOSS;
        for (int rmv = 1; rmv <= 3; ++rmv) {
            auto mk = [&](const std::string& n, std::vector<Action> sc, int D) { auto s = base(n + "-rm" + std::to_string(rmv), std::move(sc), fam, D, M_C07); s.broker.connack_props = {ref::pnum(0x21, uint32_t(rmv))}; return s; };
            v.push_back(mk("R-111", {RUN(), PUB(1, 1), PUB(1, 2), PUB(1, 3)}, tier ? 3 : 2));
            v.push_back(mk("R-212", {RUN(), PUB(2, 1), PUB(1, 2), PUB(2, 3)}, tier ? 3 : 2));
            if (rmv < 3) v.push_back(mk("R-12121", {RUN(), PUB(1, 1), PUB(2, 2), PUB(1, 3), PUB(2, 4), PUB(1, 5)}, tier ? 2 : 1));
            { auto s = mk("R-failing-puback-111", {RUN(), PUB(1, 1), PUB(1, 2), PUB(1, 3)}, 2); s.broker.puback_rc = 0x87; v.push_back(s); }
            { auto s = mk("R-failing-pubrec-22", {RUN(), PUB(2, 1), PUB(2, 2), PUB(1, 3)}, tier ? 3 : 2); s.broker.pubrec_rc = 0x80; v.push_back(s); }
            // per-operation cancellation of each publish at any point (injected)
            for (int victim = 1; victim <= 3; ++victim) { auto s = mk("R-cancel-op" + std::to_string(victim), {RUN(), slot(PUB(1, 1)), slot(PUB(2, 2)), slot(PUB(1, 3))}, 2);
                s.fam |= F_INJECT; s.inject = SIGNAL(victim, 1); v.push_back(s); }
        }
        // locally rejected publishes (too large, QoS not supported, invalid topic) never held quota and must not give any back
        for (int rmv = 1; rmv <= 2; ++rmv) {
            std::vector<Action> sc = {RUN(), WAIT_HS(1), PUB(1, 1)}; int tag = 7000;
            auto R_ = [&](Action a, int ec) { a.tag = tag++; a.payload = "payload-" + std::to_string(a.tag); a.expect_reject = true; a.expect_ec = ec; sc.push_back(a); };
            { Action a = PUB(1, 0); a.topic = std::string(100, 't'); R_(a, 101); } { Action a = PUB(2, 0); R_(a, 105); } { Action a = PUB(1, 0); a.topic = "bad/#"; R_(a, 104); } { Action a = PUB(2, 0); a.topic = std::string(100, 'u'); R_(a, 105); }
            sc.push_back(chain(PUB(1, 2))); sc.push_back(chain(PUB(1, 3))); sc.push_back(chain(PUB(1, 4))); sc.push_back(PUB(1, 5));
            auto s = base("R-rejected-then-burst-rm" + std::to_string(rmv), sc, fam, 2, M_C07 | M_C15); s.broker.connack_props = {ref::pnum(0x21, uint32_t(rmv)), ref::pnum(0x27, 64), ref::pnum(0x24, 1)}; s.expect_all_success = false; s.faults_from_pos = 7; v.push_back(s);
        }
        // the Receive Maximum changes from one connection to the next: the quota must follow the current connection's CONNACK
        { int k = 0; for (auto& seq : std::vector<std::vector<int>>{{3, 1}, {1, 3}, {0, 1}, {1, 0}, {2, 1, 2}}) { auto s = base("R-21212-rmseq" + std::to_string(k++), {RUN(), PUB(2, 1), PUB(1, 2), PUB(2, 3), PUB(1, 4), PUB(2, 5)}, fam | F_CONN, 2, M_C07 | M_C06);
              for (int r : seq) s.broker.connack_props_script.push_back(r ? ref::Props{ref::pnum(0x21, uint32_t(r))} : ref::Props{}); v.push_back(s); } }
    }
    else if (prop == "C08") {
        uint32_t fam = F_WR | F_RDCUT | F_REORDER | F_DELAY | F_BCLOSE;
        { auto s = base("I-mixed-out-of-order", {RUN(), PUB(1, 1), SUB({{"a", 1}}), PUB(2, 2), UNSUB({"b"}), BARRIER(), PUB(1, 3), PUB(2, 4)}, fam, tier ? 3 : 1, M_C08); v.push_back(s); }
        { auto s = base("I-cancel-middle", {RUN(), slot(PUB(1, 1)), slot(PUB(1, 2)), slot(PUB(1, 3)), PUB(1, 4)}, fam | F_INJECT, tier ? 3 : 2, M_C08); s.inject = SIGNAL(2, 1); s.after_inject = {PUB(1, 5), PUB(2, 6)}; v.push_back(s); }
        { // locally rejected requests took an identifier and gave it back exactly once: what is issued afterwards, several at a time, gets distinct identifiers
          std::vector<Action> sc = {RUN(), WAIT_HS(1)}; for (auto& a : rejected_requests(600)) sc.push_back(a); size_t from = sc.size();
          sc.push_back(chain(PUB(1, 1))); sc.push_back(chain(SUB({{"a", 1}}))); sc.push_back(chain(UNSUB({"b"}))); sc.push_back(chain(PUB(1, 2))); sc.push_back(PUB(1, 3));
          Scenario s = base("I-rejected-then-concurrent", sc, fam, tier ? 2 : 1, M_C08 | M_C15); s.broker.connack_props = restrictive_caps(); s.faults_from_pos = from; s.expect_all_success = false; s.max_steps = 900; v.push_back(s); }
        { // all 65535 identifiers outstanding (slow broker, Receive Maximum 1 keeps them queued): only the 65536th request reports pid_overrun
          Scenario s = base("I-exhaustion", {RUN(), WAIT_HS(1)}, 0, 0, M_C08 | M_C15); s.broker.connack_props = {ref::pnum(0x21, 1)}; s.broker.hold_publish_acks = true; s.max_steps = 60; s.horizon_s = 2; s.expect_all_success = false;
          { Action m = A(Action::PUBMANY); m.qos = 1; m.tag = 1; m.n = 65534; s.script.push_back(m); }
          { Action a = PUB(2, 80000); s.script.push_back(a); }                                                                       // takes the last free identifier
          { Action a = PUB(2, 80001); a.expect_reject = true; a.expect_ec = 103; s.script.push_back(a); }                            // pid_overrun
          { Action a = SUB({{"ov/1", 1}}); a.tag = 80002; a.expect_reject = true; a.expect_ec = 103; s.script.push_back(a); }
          { Action a = UNSUB({"ov/2"}); a.tag = 80003; a.expect_reject = true; a.expect_ec = 103; s.script.push_back(a); }
          { Action a = PUB(0, 80004); s.script.push_back(a); }                                                                       // QoS 0 needs no identifier
          v.push_back(s); }
        { auto s = base("I-rm1-reconnect", {RUN(), PUB(1, 1), PUB(2, 2), PUB(1, 3)}, fam | F_TAIL, 2, M_C08); s.broker.connack_props = {ref::pnum(0x21, 1)}; v.push_back(s); }
    }
    else if (prop == "C05" || prop == "C09") {
        bool c9 = prop == "C09"; uint32_t mon = c9 ? (M_C09 | M_C05) : M_C05;
        // base states; the stop action is injected at every choice point (and, with F_FINE, between any two handlers)
        struct B { const char* name; std::vector<Action> script; ref::Props ca; int flavour; };
        std::vector<B> bases = {
            // (operations on a client that has never been run are outside the documented use - see DESIGN 6.1 - and are not explored)
            {"B9-burst-while-connected", {slot(RUN()), WAIT_HS(1), chain(slot(PUB(1, 1))), chain(slot(PUB(2, 2))), chain(slot(SUB({{"a", 1}}))), slot(PUB(0, 3)), slot(RECV(1))}, {}, 0},
            {"B9-burst-while-connecting", {chain(slot(RUN())), chain(slot(PUB(1, 1))), chain(slot(PUB(0, 2))), slot(UNSUB({"a"})), slot(RECV(1))}, {}, 1},
            {"B2-connecting", {slot(RUN()), slot(PUB(1, 1)), slot(PUB(0, 2)), slot(RECV(1))}, {}, 0},
            {"B4-connected-rm1", {slot(RUN()), slot(RECV(1)), slot(PUB(1, 1)), slot(PUB(2, 2)), slot(SUB({{"a", 1}})), slot(PUB(0, 3))}, {ref::pnum(0x21, 1)}, 0},
            {"B4-connected-rm1-tcp", {slot(RUN()), slot(RECV(1)), slot(PUB(1, 1)), slot(PUB(2, 2)), slot(UNSUB({"a"}))}, {ref::pnum(0x21, 1)}, 1},
            {"B7-two-brokers", {slot(RUN()), slot(PUB(1, 1)), slot(RECV(1))}, {}, 0},
            {"B10-slow-dns", {slot(RUN()), slot(PUB(1, 1)), slot(RECV(1))}, {}, 0},
        };
        struct I { const char* name; Action act; bool restart; };
        std::vector<I> injs;
        if (!c9) { injs.push_back({"cancel", CANCEL(), true}); injs.push_back({"destroy", A(Action::DESTROY), false}); injs.push_back({"move-assign", A(Action::MOVE_ASSIGN), false});
            injs.push_back({"disconnect", DISC(0), true});
            for (int op = 0; op < 5; ++op) for (int ty : {1, 2, 4}) { if (ty == 2 && op > 1) continue; injs.push_back({"signal", SIGNAL(op, ty), false}); } }
        else { injs.push_back({"disconnect", DISC(0), true}); injs.push_back({"disconnect-rc4-props", DISC(0x04, {ref::pstr(0x1F, "bye"), ref::ppair("k", "v"), ref::pnum(0x11, 5)}), true}); }
        for (auto& b : bases) for (auto& in : injs) {
            if (in.act.k == Action::SIGNAL && in.act.target_op >= int(b.script.size())) continue;
            uint32_t netfam = F_WR | F_RDCUT | F_CONN | F_HS | F_BCLOSE | F_SHUT;
            Scenario s = base(std::string(b.name) + "+" + in.name + (in.act.k == Action::SIGNAL ? "-op" + std::to_string(in.act.target_op) + "-t" + std::to_string(in.act.sig_type) : ""), b.script, F_INJECT | F_FINE | (tier ? netfam | F_REORDER : netfam), tier ? 3 : 2, mon);
            s.flavour = b.flavour; s.broker.connack_props = b.ca; s.inject = in.act; s.expect_all_success = false;
            if (std::string(b.name) == "B7-two-brokers") { s.hosts = "b0,b1"; s.fam |= F_CONN | F_HS; s.D = 2; }
            if (std::string(b.name) == "B10-slow-dns") { s.hosts = "b0,b1"; s.gate_dns = true; s.fam |= F_CONN | F_REORDER; s.D = 2; }
            if (in.restart) { s.after_inject = {RUN(), PUB(1, 90), PUB(2, 91)}; }
            if (c9) { s.idle_tail_s = 0; }
            if (in.act.k == Action::SIGNAL) { s.monitors &= ~M_C09; if (!tier) s.D = 1; }
            s.max_steps = 900;
            v.push_back(s);
        }
        if (!c9) {
            // applications call the API from inside completion handlers (cancellable_handler::complete dispatches, i.e. the user's
            // handler runs inline in replies::dispatch / async_sender's completion loop / resend()): op 1's handler performs the action
            struct HK { const char* name; Action act; };
            for (auto& hk : std::vector<HK>{{"publish", PUB(1, 70)}, {"publish-qos2", PUB(2, 71)}, {"subscribe", SUB({{"h/1", 1}})}, {"cancel", CANCEL()}, {"destroy", A(Action::DESTROY)}, {"disconnect", DISC(0)}, {"signal-next", SIGNAL(2, 1)}}) {
                for (int rmv : {0, 1}) { Scenario s = base(std::string("B8-in-handler-") + hk.name + (rmv ? "-rm1" : ""), {slot(RUN()), slot(PUB(1, 1)), slot(PUB(2, 2)), slot(PUB(1, 3)), slot(RECV(1))}, F_WR | F_RDCUT | F_REORDER | F_DELAY | F_BCLOSE, tier ? 2 : 1, mon);
                    if (rmv) s.broker.connack_props = {ref::pnum(0x21, 1)}; s.on_complete[1] = {hk.act}; s.expect_all_success = false; s.max_steps = 900; v.push_back(s);
                    s.name += "-from-op2"; s.on_complete.clear(); s.on_complete[2] = {hk.act}; v.push_back(s); } }
        }
        if (!c9) {
            // requests that are rejected locally, issued from inside another operation's handler: the rejection must still not run the handler inside the initiating call
            Scenario s = base("B11-rejected-requests-in-handler", {RUN(), WAIT_HS(1), PUB(1, 1), BARRIER(), PUB(0, 2)}, F_REORDER | F_DELAY, 1, mon | M_C15);
            s.broker.connack_props = {ref::pnum(0x27, 60), ref::pnum(0x24, 1), ref::pnum(0x25, 0), ref::pnum(0x22, 2), ref::pnum(0x28, 0), ref::pnum(0x29, 0), ref::pnum(0x2A, 0)};
            int tag = 500; std::vector<Action> rej;
            auto R_ = [&](Action a, int ec) { a.tag = tag++; if (a.k == Action::PUB) a.payload = "payload-" + std::to_string(a.tag); a.expect_reject = true; a.expect_ec = ec; rej.push_back(a); };
            { Action a = PUB(0, 0); a.topic = "bad/#"; R_(a, 104); } { Action a = PUB(1, 0); a.topic = ""; R_(a, 104); } R_(PUB(2, 0), 105); R_(PUB(0, 0, true), 106); R_(PUB(0, 0, false, {ref::pnum(0x23, 3)}), 107);
            { Action a = PUB(1, 0); a.topic = std::string(100, 't'); R_(a, 101); } { Action a = PUB(0, 0, false, {ref::pnum(0x01, 1)}); a.payload = "\xC0\x20"; a.tag = tag++; a.expect_reject = true; a.expect_ec = 100; rej.push_back(a); }
            R_(SUB({{"w/#", 1}}), 108); R_(SUB({{"$share/g/t", 1}}), 110); R_(SUB({{"p", 1}}, {ref::pnum(0x0B, 5)}), 109); R_(SUB({{std::string(100, 'f'), 1}}), 101); R_(SUB({{"a//\x01", 1}}), 104); R_(SUB({}), 104);
            R_(UNSUB({std::string(100, 'u')}), 101); R_(UNSUB({"bad/#/x"}), 104); R_(UNSUB({}), 104);
            s.on_complete[1] = rej; s.on_complete[2] = rej; s.expect_all_success = false; s.max_steps = 900; v.push_back(s); s.name += "-tcp"; s.flavour = 1; v.push_back(s);
        }
        if (c9) {
            // scripted disconnects: in the middle of traffic, with an oversized DISCONNECT, followed by 120 s of observed silence
            { auto s = base("D1-disconnect-after-traffic", {RUN(), PUB(1, 1), PUB(2, 2), PUB(0, 3), DISC(0x04, {ref::pstr(0x1F, "bye")})}, F_WR | F_RDCUT | F_BCLOSE | F_REORDER | F_SHUT | F_WRSHORT, 2, mon); s.idle_tail_s = 120; s.epilogue_cancel = false; s.expect_all_success = false; v.push_back(s); s.name += "-tcp"; s.flavour = 1; v.push_back(s); }
            { Action d = DISC(0x00, {ref::pstr(0x1F, std::string(200, 'r')), ref::ppair("k", "v")}); d.tag = 777;
              auto s = base("D2-oversized-disconnect", {RUN(), PUB(1, 1), BARRIER(), d}, F_WR | F_RDCUT | F_REORDER, 1, mon); s.broker.connack_props = {ref::pnum(0x27, 60)}; s.idle_tail_s = 30; s.epilogue_cancel = false; s.expect_all_success = false; v.push_back(s); }
            // Maximum Packet Size boundary: a DISCONNECT of exactly the announced size still goes out as given
            { ref::Packet e; e.type = ref::DISCONNECT; e.rc = 0x04; e.has_rc = true; e.has_props = true; e.props = {ref::pstr(0x1F, "maintenance window"), ref::ppair("site", "zagreb-2")}; int n = int(ref::encode(e).size());
              for (int delta : {-1, 0, 1}) { auto s = base("D4-disconnect-size-edge-" + std::to_string(delta + 1), {RUN(), PUB(1, 1), BARRIER(), DISC(0x04, e.props)}, F_WR | F_RDCUT | F_REORDER, 1, mon); s.broker.connack_props = {ref::pnum(0x27, uint32_t(n + delta))}; s.idle_tail_s = 30; s.epilogue_cancel = false; s.expect_all_success = false; v.push_back(s); } }
            { auto s = base("D3-disconnect-unreachable", {RUN(), PUB(1, 1), DISC(0)}, F_CONN | F_HS | F_REORDER, 3, mon); s.hosts = "b0,b1"; s.idle_tail_s = 120; s.epilogue_cancel = false; s.expect_all_success = false; v.push_back(s); }
        }
    }
    else if (prop == "C10") {
        // handshake outcome sequences x broker lists
        uint32_t fam = F_CONN | F_HS | F_REORDER;
        { auto s = base("H1-one-broker", {RUN(), PUB(1, 1)}, fam, tier ? 5 : 3, M_C10 | M_C02); s.max_steps = 1200; v.push_back(s); }
        { auto s = base("H2-two-brokers", {RUN(), PUB(1, 1)}, fam, tier ? 5 : 3, M_C10 | M_C02); s.hosts = "b0, b1:1884"; s.max_steps = 1200; v.push_back(s); }
        { auto s = base("H3-three-brokers-two-addresses", {RUN(), PUB(1, 1), PUB(2, 2)}, fam & ~F_REORDER, tier ? 4 : 3, M_C10 | M_C02); s.hosts = "b0,b1,b2"; s.dns_two_mask = 2; v.push_back(s); }
        { auto s = base("H4-unresolvable-first", {RUN(), PUB(1, 1)}, fam, 2, M_C10 | M_C02); s.hosts = "b0,b1"; s.dns_fail_mask = 1; v.push_back(s); }
        { auto s = base("H5-traffic-before-connack", {PUB(1, 1), SUB({{"a", 1}}), RUN(), PUB(2, 2)}, fam | F_CHUNK | F_DELAY, 2, M_C10); s.expect_all_success = false; v.push_back(s); }
        { auto s = base("H6-auth-two-step", {RUN(), PUB(1, 1)}, fam | F_WR | F_RDCUT, 2, M_C10 | M_C02); s.auth.present = true; s.auth.method = "SCRAM"; s.broker.auth_method = "SCRAM"; s.broker.auth_rounds = 2; v.push_back(s); }
        { auto s = base("H7-tcp-reconnects", {RUN(), PUB(1, 1), PUB(1, 2)}, fam | F_WR | F_RDCUT | F_BCLOSE, 2, M_C10 | M_C02); s.flavour = 1; s.hosts = "b0,b1"; v.push_back(s); }
        // DNS lookups are parked environment events: slow DNS (5 s resolve timer), failing lookups, lookups racing with everything else
        { auto s = base("H10-slow-dns", {RUN(), PUB(1, 1)}, fam, tier ? 4 : 3, M_C10 | M_C02); s.hosts = "b0,b1,b2"; s.gate_dns = true; s.max_steps = 1200; v.push_back(s); }
        // a CONNACK rich in properties (Server Keep Alive, Assigned Client Identifier, limits ...) must not leak into the next CONNECT
        { auto s = base("H8-rich-connack-then-reconnect", {RUN(), PUB(1, 1), PUB(0, 2)}, fam | F_WR | F_RDCUT | F_BCLOSE | F_LOSS, 3, M_C10 | M_C02); s.hosts = "b0,b1"; s.client_id = ""; s.keep_alive = 10; s.user = "u"; s.connect_props = {ref::pnum(0x11, 60), ref::pnum(0x21, 20), ref::ppair("ck", "cv")};
          s.broker.connack_props = {ref::pnum(0x11, 5), ref::pnum(0x21, 7), ref::pnum(0x24, 1), ref::pnum(0x25, 1), ref::pnum(0x27, 4096), ref::pnum(0x22, 3), ref::pstr(0x1F, "welcome"), ref::ppair("sk", "sv"), ref::pnum(0x28, 1), ref::pnum(0x29, 1), ref::pnum(0x2A, 1), ref::pnum(0x13, 30), ref::pstr(0x1A, "resp/info"), ref::pstr(0x1C, "other:1883")};
          s.max_steps = 900; v.push_back(s); s.name = "H9-rich-refusal-then-next-broker"; s.broker.connack_rc_script = {0x89}; s.D = 2; v.push_back(s); }
        // configuration product (one handshake each, D = 0; the CONNECT is compared with the configuration)
        std::vector<uint8_t> cp_ids = {0x11, 0x21, 0x27, 0x22, 0x19, 0x17, 0x26};
        int n_cfg = 0;
        for (int cr = 0; cr < 4; ++cr) for (int wl = 0; wl < 3; ++wl) for (uint16_t ka : {uint16_t(0), uint16_t(10), uint16_t(65535)}) for (uint32_t mask = 0; mask < 128; ++mask) {
            if (!tier && (mask * 7 + cr * 3 + wl + ka) % 9 != 0 && mask != 127 && mask != 0) continue;
            Scenario s = base("K-" + std::to_string(n_cfg++), {RUN(), WAIT_HS(1)}, 0, 0, M_C10);
            s.client_id = (cr & 1) ? "" : "client-" + std::to_string(mask); if (cr & 1) s.user = "user"; if (cr & 2) s.pass = std::string("p\x01w", 3); s.keep_alive = ka;
            for (int b = 0; b < 7; ++b) if (mask & (1u << b)) { if (cp_ids[b] == 0x26) { s.connect_props.push_back(ref::ppair("a", "b")); s.connect_props.push_back(ref::ppair("a", "")); } else { ref::Prop q = glue_typical(cp_ids[b]); s.connect_props.push_back(q); } }
            if (wl) { s.will.present = true; s.will.topic = "will/t"; s.will.payload = std::string("w\x00", 2); s.will.qos = (mask + cr) % 3; s.will.retain = mask & 1;
                if (wl == 2) s.will.props = {ref::pnum(0x18, 30), ref::pnum(0x01, 1), ref::pnum(0x02, 60), ref::pstr(0x03, "ct"), ref::pstr(0x08, "resp/t"), ref::pstr(0x09, std::string("c\x00", 2)), ref::ppair("wk", "wv")}; }
            v.push_back(s);
        }
    }
    else if (prop == "C11") {
        uint32_t fam = F_WR | F_RDCUT | F_LOSS | F_REORDER | F_BCLOSE | F_NOREPLY | F_CONN | F_HS | F_SHUT;
        { auto s = base("S1-write-and-read-fail", {RUN(), PUB(1, 1), PUB(2, 2), SUB({{"a", 1}})}, fam, tier ? 3 : 2, M_C11); v.push_back(s); s.name += "-tcp"; s.flavour = 1; v.push_back(s); }
        { auto s = base("S2-keepalive-timeout-meets-sentry", {RUN(), PUB(1, 1), PUB(2, 2)}, fam, tier ? 3 : 2, M_C11); s.keep_alive = 2; s.max_steps = 900; v.push_back(s); s.name += "-tcp"; s.flavour = 1; v.push_back(s); }
        { auto s = base("S3-two-brokers", {RUN(), PUB(1, 1), PUB(1, 2)}, fam, 2, M_C11); s.hosts = "b0,b1"; v.push_back(s); }
        { auto s = base("S5-finenet-failures", {RUN(), PUB(1, 1), PUB(2, 2), SUB({{"a", 1}})}, F_FINENET | F_WR | F_RDCUT | F_REORDER | F_BCLOSE, 2, M_C11); v.push_back(s); s.name += "-tcp"; s.flavour = 1; v.push_back(s); }
        { auto s = base("S6-slow-dns-failures", {RUN(), PUB(1, 1), PUB(2, 2)}, F_WR | F_RDCUT | F_REORDER | F_CONN | F_HS | F_LOSS, 2, M_C11); s.hosts = "b0,b1"; s.gate_dns = true; v.push_back(s); }
        // terminal cancellation of async_run keeps the same service object (no swap): queued reconnect requests are cancelled while one is in progress, then the client is run again
        { auto s = base("S7-terminal-signal-then-rerun", {slot(RUN()), PUB(1, 1), PUB(2, 2)}, F_WR | F_RDCUT | F_CONN | F_INJECT | F_FINE, 3, M_C11 | M_C05); s.inject = SIGNAL(0, 4); s.after_inject = {RUN(), PUB(1, 90)}; s.expect_all_success = false; s.max_steps = 900; v.push_back(s);
          s.name += "-tcp"; s.flavour = 1; v.push_back(s); }
        // ... and run again from inside async_run's completion handler, while cancelled write-side handlers may not have unwound yet
        // (running again before async_run has completed would be two concurrent async_run on one client: not judged)
        { auto s = base("S8-terminal-signal-rerun-in-handler", {slot(RUN()), PUB(1, 1), PUB(2, 2)}, F_WR | F_RDCUT | F_INJECT | F_FINE, 2, M_C11 | M_C05); s.inject = SIGNAL(0, 4); s.on_complete[0] = {RUN(), PUB(1, 90), PUB(0, 91)}; s.expect_all_success = false; s.max_steps = 900; v.push_back(s);
          s.name += "-tcp"; s.flavour = 1; v.push_back(s); }
        // the same with slow DNS: the cancelled holder may still sit in a lookup that asio cannot abort when the client runs again
        { auto s = base("S9-terminal-signal-rerun-slow-dns", {slot(RUN()), PUB(1, 1), PUB(2, 2)}, F_WR | F_RDCUT | F_INJECT, 2, M_C11 | M_C05); s.inject = SIGNAL(0, 4); s.on_complete[0] = {RUN(), PUB(1, 90), PUB(0, 91)}; s.hosts = "b0,b1"; s.gate_dns = true; s.expect_all_success = false; s.max_steps = 900; v.push_back(s); }
        { auto s = base("S4-cancel-during-reconnect", {RUN(), PUB(1, 1)}, fam | F_INJECT | F_FINE, 2, M_C11 | M_C05); s.inject = CANCEL(); s.expect_all_success = false; v.push_back(s); }
    }
    else if (prop == "C12") {
        for (int K : {0, 1, 2, 5, 60}) for (int ska : {-1, 0, 1, 3}) for (int traffic = 0; traffic < 3; ++traffic) {
            if (!tier && K == 60 && ska > 0) continue;
            std::vector<Action> sc = {RUN()}; if (traffic == 2) { sc.push_back(PUB(1, 1)); sc.push_back(PUB(0, 2)); }
            Scenario s = base("T-K" + std::to_string(K) + "-ska" + std::to_string(ska) + "-traffic" + std::to_string(traffic), sc, (tier ? F_REORDER | F_RDCUT | F_WR : F_REORDER), tier ? (traffic == 2 && K <= 2 ? 3 : 2) : 1, M_C12);
            s.keep_alive = uint16_t(K); if (ska >= 0) s.broker.connack_props = {ref::pnum(0x13, uint32_t(ska))};
            s.broker.pingresp = traffic != 0; int negotiated = ska >= 0 ? ska : K;
            s.idle_tail_s = negotiated == 0 ? 3600 : std::max(20, negotiated * 5); s.max_steps = 3000; s.horizon_s = 100000; s.expect_all_success = false;
            v.push_back(s); if (traffic == 0 && (K == 2 || ska == 1)) { s.name += "-tcp"; s.flavour = 1; v.push_back(s); }
        }
        // the negotiated keep-alive changes from one connection to the next (Server Keep Alive appears / shrinks / disappears), session resumed or not
        { int k = 0; for (auto& seq : std::vector<std::vector<int>>{{-1, 1}, {5, 1}, {1, 5}, {2, -1}, {-1, 2, 1}}) for (int K : {0, 10}) for (int sp0 : {0, 1}) {
              Scenario s = base("T-skaseq" + std::to_string(k++), {RUN(), WAIT_HS(1), A(Action::KILLCONN), WAIT_HS(2)}, F_REORDER, 1, M_C12); s.keep_alive = uint16_t(K);
              for (int v_ : seq) s.broker.connack_props_script.push_back(v_ >= 0 ? ref::Props{ref::pnum(0x13, uint32_t(v_))} : ref::Props{});
              if (seq.size() > 2) { s.script.push_back(A(Action::KILLCONN)); s.script.push_back(WAIT_HS(3)); }
              s.broker.sp_policy = {-1, sp0 ? -1 : 0, -1}; s.idle_tail_s = 40; s.max_steps = 3000; s.horizon_s = 100000; s.expect_all_success = false; v.push_back(s); } }
    }
    else if (prop == "C13") {
        // all sequences up to the length over {S ok, F all failed, X cancelled subscribe, R0 reconnect sp=0, R1 reconnect sp=1, M broker publishes}
        int L = tier ? 5 : 4; const char* alpha = "SFXrRMBPb"; int nseq = 0;   // b = like B, but the accepted CONNACK after the refusal says Session Present 0   // P = one SUBSCRIBE with two filters, one granted and one refused
        std::vector<int> idx; std::function<void()> gen = [&]() {
            if (!idx.empty()) { Scenario s = base("Q-", {RUN(), RECV(12)}, 0, 0, M_C13); std::string nm; int subs = 0, recon = 0, connects = 1; s.broker.sp_policy = {-1};
                for (int k : idx) { char c = alpha[k]; nm.push_back(c);
                    if (c == 'S') { s.script.push_back(SUB({{"s/" + std::to_string(subs), 1}})); s.script.push_back(BARRIER()); subs++; }
                    if (c == 'P') { s.script.push_back(SUB({{"p/" + std::to_string(subs) + "/a", 1}, {"p/" + std::to_string(subs) + "/b", 2}})); s.script.push_back(BARRIER()); s.broker.suback_script.resize(subs + 1); s.broker.suback_script[subs] = (subs % 2) ? std::vector<uint8_t>{0x87, 0x01} : std::vector<uint8_t>{0x01, 0x87}; subs++; }
                    if (c == 'F') { s.script.push_back(SUB({{"f/" + std::to_string(subs), 1}})); s.script.push_back(BARRIER()); s.broker.suback_script.resize(subs + 1); s.broker.suback_script[subs] = {0x87}; subs++; }
                    if (c == 'X') { Action a = slot(SUB({{"x/" + std::to_string(subs), 1}})); s.script.push_back(a); s.script.push_back(SIGNAL(-2, 1)); s.script.push_back(A(Action::KILLCONN)); s.script.push_back(WAIT_HS(2 + recon)); s.script.push_back(BARRIER()); recon++; connects++; s.broker.sp_policy.push_back(-1); subs++; }
                    if (c == 'r' || c == 'R') { s.script.push_back(A(Action::KILLCONN)); s.script.push_back(WAIT_HS(2 + recon)); recon++; connects++; s.broker.sp_policy.push_back(c == 'r' ? 0 : -1); }
                    if (c == 'b') { s.broker.connack_rc_script.resize(connects + 1, 0); s.broker.connack_rc_script[connects] = 0x88; connects += 2; s.script.push_back(A(Action::KILLCONN)); s.script.push_back(WAIT_HS(2 + recon)); recon++; s.broker.sp_policy.push_back(0); }
                    if (c == 'B') { s.broker.connack_rc_script.resize(connects + 1, 0); s.broker.connack_rc_script[connects] = 0x89; connects += 2; s.script.push_back(A(Action::KILLCONN)); s.script.push_back(WAIT_HS(2 + recon)); recon++; s.broker.sp_policy.push_back(-1); }
                    if (c == 'M') { s.script.push_back(BPUB(1, 100 + int(s.script.size()))); } }
                for (size_t i = 0; i < s.broker.suback_script.size(); ++i) if (s.broker.suback_script[i].empty()) s.broker.suback_script[i] = {0x01};
                s.name += nm; s.expect_all_success = false; s.fam = tier ? (F_REORDER | F_CHUNK) : 0; s.D = tier ? 1 : 0; s.idle_tail_s = 0; nseq++;
                v.push_back(s); }
            if (int(idx.size()) == L) return;
            for (int k = 0; k < 9; ++k) { idx.push_back(k); gen(); idx.pop_back(); } };
        gen();
        // reconnect through the write path and through both paths at once, with faults around the CONNACK
        { auto s = base("Q-faulty-SrMS", {RUN(), RECV(8), SUB({{"a", 1}}), BARRIER(), PUB(1, 1), PUB(2, 2), SUB({{"b", 1}})}, F_WR | F_RDCUT | F_BCLOSE | F_REORDER | F_TAIL, tier ? 3 : 2, M_C13); s.broker.sp_policy = {-1, 0, -1, 0}; s.expect_all_success = false; v.push_back(s);
          s.name = "Q-faulty-handshakes"; s.fam = F_HS | F_CONN | F_RDCUT | F_BCLOSE; s.broker.sp_policy = {-1, -1, -1, -1}; s.hosts = "b0,b1"; v.push_back(s); }
    }
    else if (prop == "C14") {
        std::vector<uint8_t> codes = {0x00, 0x01, 0x02, 0x80, 0x87, 0x03, 0x11, 0x9E};
        int id = 0;
        auto add = [&](bool unsub, int n, std::vector<uint8_t> rcs) { std::vector<std::pair<std::string, uint8_t>> f; std::vector<std::string> uf; const char* names[] = {"plain/t", "wild/+/#", "$share/g/sh"};
            for (int i = 0; i < n; ++i) { static const uint8_t optv[] = {0x01, 0x2E, 0x1A}; f.emplace_back(names[i], optv[i]); uf.push_back(names[i]); }
            Scenario s = base(std::string(unsub ? "U" : "S") + std::to_string(n) + "-" + std::to_string(id++), {RUN(), unsub ? UNSUB(uf, {ref::ppair("k", "v")}) : SUB(f, {ref::pnum(0x0B, 9), ref::ppair("k", "v")})}, tier ? (F_REORDER | F_CHUNK | F_RDCUT | F_WR) : F_REORDER, (tier && n <= 2 && rcs.size() <= 2) ? 2 : 1, M_C14 | M_C02);
            if (unsub) s.broker.unsuback_script = {rcs}; else s.broker.suback_script = {rcs}; s.broker.ack_props = true; v.push_back(s); };
        for (int unsub = 0; unsub < 2; ++unsub) for (int n = 1; n <= 3; ++n) for (int cnt = std::max(1, n - 1); cnt <= n + 1; ++cnt) {
            std::vector<int> ix(cnt, 0);
            for (;;) { std::vector<uint8_t> rcs; for (int i : ix) rcs.push_back(codes[i]); bool keep = tier || cnt <= 2 || (ix[0] * 5 + ix[1] * 3 + ix[2] + (cnt > 3 ? ix[3] : 0)) % 4 == 0; if (keep) add(unsub, n, rcs);
                int k = cnt - 1; while (k >= 0 && ++ix[k] == int(codes.size())) ix[k--] = 0; if (k < 0) break; } }
        // sequential requests reuse packet id 1: an acknowledgement left over from the previous exchange must not complete the next one
        { auto s = base("S-sequential-id-reuse", {RUN(), SUB({{"r/1", 1}}), BARRIER(), SUB({{"r/2", 2}}), BARRIER(), UNSUB({"r/1"}), BARRIER(), UNSUB({"r/2"})}, F_WR | F_REORDER | F_RDCUT | F_TAIL | F_DELAY, 2, M_C14 | M_C02);
          s.broker.suback_script = {{0x01}, {0x87}, {0x02}, {0x00}, {0x80}}; s.broker.unsuback_script = {{0x00}, {0x11}, {0x87}, {0x00}}; s.broker.ack_props = true; v.push_back(s); }
        { auto s = base("S-all-options", {RUN()}, F_REORDER, 1, M_C14 | M_C02); for (int o = 0; o < 36; ++o) { int q = o % 3, nl = (o / 3) % 2, rap = (o / 6) % 2, rh = o / 12; s.script.push_back(SUB({{"opt/" + std::to_string(o), uint8_t((rh << 4) | (rap << 3) | (nl << 2) | q)}})); } s.max_steps = 2000; v.push_back(s); }
    }
    else if (prop == "C15") {
        // capability products x boundary requests; every request waits for the previous one
        int id = 0;
        for (int mq : {-1, 0, 1}) for (int ra : {-1, 0, 1}) for (int tam : {-1, 0, 1, 5}) for (int caps = 0; caps < (tier ? 27 : 9); ++caps) {
            int wild = caps % 3 - 1, shared = (caps / 3) % 3 - 1, subid = tier ? (caps / 9) % 3 - 1 : (caps % 2 ? 0 : -1);
            Scenario s = base("Cap-" + std::to_string(id++), {RUN(), WAIT_HS(1)}, 0, 0, M_C15);
            auto& ca = s.broker.connack_props; if (mq >= 0) ca.push_back(ref::pnum(0x24, mq)); if (ra >= 0) ca.push_back(ref::pnum(0x25, ra)); if (tam >= 0) ca.push_back(ref::pnum(0x22, tam));
            if (wild >= 0) ca.push_back(ref::pnum(0x28, wild)); if (shared >= 0) ca.push_back(ref::pnum(0x2A, shared)); if (subid >= 0) ca.push_back(ref::pnum(0x29, subid));
            int tag = 1; auto req = [&](Action a, int reject_ec) { a.tag = tag++; if (a.k == Action::PUB) a.payload = "payload-" + std::to_string(a.tag); a.expect_reject = reject_ec != 0; a.expect_ec = reject_ec; s.script.push_back(a); s.script.push_back(BARRIER()); };
            int maxq = mq < 0 ? 2 : mq;
            for (int q = 0; q <= 2; ++q) req(PUB(q, 0), q > maxq ? 105 : 0);                                   // qos_not_supported
            req(PUB(0, 0, true), ra == 0 ? 106 : 0);                                                          // retain_not_available
            int am = tam < 0 ? 0 : tam;
            for (int al : {1, am, am + 1}) { if (al == 0) continue; Action a = PUB(0, 0, false, {ref::pnum(0x23, uint32_t(al))}); req(a, (am == 0 || al > am) ? 107 : 0); }   // topic_alias_maximum_reached
            { Action a = SUB({{"w/+", 1}}); req(a, wild == 0 ? 108 : 0); }                                       // wildcard_subscription_not_available
            { Action a = SUB({{"$share/g/t", 1}}); req(a, shared == 0 ? 110 : 0); }                              // shared_subscription_not_available
            { Action a = SUB({{"$share/g/+", 1}}); req(a, shared == 0 ? 110 : (wild == 0 ? 108 : 0)); }
            { Action a = SUB({{"p/t", 1}}, {ref::pnum(0x0B, 5)}); req(a, subid == 0 ? 109 : 0); }                // subscription_identifier_not_available
            s.max_steps = 1500; v.push_back(s);
            // the same capabilities learnt through an enhanced-authentication handshake (CONNACK follows AUTH rounds)
            // the client's own CONNECT properties (limits for the opposite direction) must not leak into the checks of what it may send
            if (id % 3 == 2 || tier) { Scenario c2 = s; c2.name = "CapCo-" + std::to_string(id - 1); c2.connect_props = {ref::pnum(0x22, 7), ref::pnum(0x21, 9), ref::pnum(0x27, 4096), ref::pnum(0x11, 30)}; v.push_back(c2); }
            if (id % 3 == 1 || tier) { s.name = "CapAuth-" + std::to_string(id - 1); s.auth.present = true; s.auth.method = "SCRAM"; s.broker.auth_method = "SCRAM"; s.broker.auth_rounds = (id % 2) ? 2 : 0; v.push_back(s); }
        }
        // capabilities change from one connection to the next: requests issued while holding the second CONNACK follow the second
        { int k = 0; struct CapSet { int mq, ra, tam, wild, shared, subid; };
          auto props_of = [](const CapSet& c) { ref::Props p; if (c.mq >= 0) p.push_back(ref::pnum(0x24, c.mq)); if (c.ra >= 0) p.push_back(ref::pnum(0x25, c.ra)); if (c.tam >= 0) p.push_back(ref::pnum(0x22, c.tam)); if (c.wild >= 0) p.push_back(ref::pnum(0x28, c.wild)); if (c.shared >= 0) p.push_back(ref::pnum(0x2A, c.shared)); if (c.subid >= 0) p.push_back(ref::pnum(0x29, c.subid)); return p; };
          std::vector<CapSet> sets = {{-1, -1, -1, -1, -1, -1}, {0, 0, 0, 0, 0, 0}, {1, 1, 5, 1, 1, 1}, {0, -1, 2, 0, -1, 0}};
          for (size_t a = 0; a < sets.size(); ++a) for (size_t b = 0; b < sets.size(); ++b) { if (a == b) continue; const CapSet& c2 = sets[b];
              Scenario s = base("CapSeq-" + std::to_string(k++), {RUN(), WAIT_HS(1), PUB(0, 900), BARRIER(), A(Action::KILLCONN), WAIT_HS(2)}, 0, 0, M_C15); s.broker.connack_props_script = {props_of(sets[a]), props_of(c2)}; s.broker.connack_props = props_of(c2);
              int tag = 1; auto req = [&](Action x, int reject_ec) { x.tag = tag++; if (x.k == Action::PUB) x.payload = "payload-" + std::to_string(x.tag); x.expect_reject = reject_ec != 0; x.expect_ec = reject_ec; s.script.push_back(x); s.script.push_back(BARRIER()); };
              int maxq = c2.mq < 0 ? 2 : c2.mq; for (int q = 0; q <= 2; ++q) req(PUB(q, 0), q > maxq ? 105 : 0);
              req(PUB(0, 0, true), c2.ra == 0 ? 106 : 0);
              int am = c2.tam < 0 ? 0 : c2.tam; for (int al : {1, am, am + 1}) { if (al == 0) continue; req(PUB(0, 0, false, {ref::pnum(0x23, uint32_t(al))}), (am == 0 || al > am) ? 107 : 0); }
              req(SUB({{"w/+", 1}}), c2.wild == 0 ? 108 : 0); req(SUB({{"$share/g/t", 1}}), c2.shared == 0 ? 110 : 0); req(SUB({{"p/t", 1}}, {ref::pnum(0x0B, 5)}), c2.subid == 0 ? 109 : 0);
              s.max_steps = 1500; s.expect_all_success = false; v.push_back(s); } }
        // Maximum Packet Size boundaries: s-1, s, s+1 for each request kind
        { ref::Packet pp; pp.type = ref::PUBLISH; pp.flags = 2; pp.pid = 1; pp.topic = "t/0"; pp.payload = "payload-1"; size_t ps = ref::encode(pp).size();
          ref::Packet sp; sp.type = ref::SUBSCRIBE; sp.pid = 1; sp.filters = {{"size/t", 1}}; size_t ss = ref::encode(sp).size();
          ref::Packet up; up.type = ref::UNSUBSCRIBE; up.pid = 1; up.filters = {{"size/t", 0}}; size_t us = ref::encode(up).size();
          for (int kind = 0; kind < 3; ++kind) for (int d = -1; d <= 1; ++d) { size_t sz = (kind == 0 ? ps : kind == 1 ? ss : us) + d;
              Scenario s = base("MaxSize-" + std::to_string(kind) + "-" + std::to_string(d + 1), {RUN(), WAIT_HS(1)}, 0, 0, M_C15); s.broker.connack_props = {ref::pnum(0x27, uint32_t(sz))};
              Action a = kind == 0 ? PUB(1, 1) : kind == 1 ? SUB({{"size/t", 1}}) : UNSUB({"size/t"}); if (kind == 0) { a.topic = "t/0"; } a.tag = 1; a.expect_reject = d < 0; a.expect_ec = d < 0 ? 101 : 0;   // packet_too_large
              s.script.push_back(a); s.script.push_back(BARRIER()); v.push_back(s); } }
    }
    else if (prop == "C16") {
        // public API with every string of length <= 2 over a reduced alphabet in each string-valued field
        static const unsigned char AL[] = {0x00, 0x1F, 0x20, '#', '+', '/', 'a', 0x7F, 0x80, 0xC2, 0xA0, 0xC3, 0xBE, 0xEF, 0xBF, 0xFF};
        std::vector<std::string> strs = {""}; for (unsigned char a : AL) strs.push_back(std::string(1, char(a))); for (unsigned char a : AL) for (unsigned char b : AL) { std::string x; x.push_back(char(a)); x.push_back(char(b)); strs.push_back(x); }
        strs.push_back("\xEF\xBF\xBE"); strs.push_back("\xEF\xB7\x90"); strs.push_back("\xED\xA0\x80"); strs.push_back("\xF4\x90\x80\x80"); strs.push_back("\xE2\x82\xAC/\xF0\x9F\x98\x80"); strs.push_back(std::string(65535, 't')); strs.push_back(std::string(65536, 't'));
        enum { INVALID_TOPIC = 104, MALFORMED = 100 };
        const char* fields[] = {"pub-topic", "pub-topic-alias", "pub-payload-utf8", "pub-response-topic", "pub-content-type", "pub-user-key", "pub-user-value", "sub-filter", "sub-shared-filter", "sub-user-key", "unsub-filter", "unsub-user-value", "disc-reason", "disc-user-key"};
        for (int f = 0; f < 14; ++f) { if (!tier && f >= 12) { /* disconnect fields: one request per execution */ }
            size_t per = f >= 12 ? 1 : 90; for (size_t start = 0; start < strs.size(); start += per) {
                if (f >= 12 && !tier && start % 7 != 0 && start + 8 < strs.size()) continue;
                Scenario s = base(std::string("V-") + fields[f] + "-" + std::to_string(start), {RUN(), WAIT_HS(1)}, 0, 0, M_C16); s.broker.connack_props = {ref::pnum(0x22, 10)}; s.max_steps = 2500; s.expect_all_success = false;
                for (size_t i = start; i < std::min(strs.size(), start + per); ++i) { const std::string& x = strs[i]; Action a; bool ok = true; int ec = MALFORMED;
                    switch (f) {
                        case 0: a = PUB(0, 0); a.topic = x; ok = ref::topic_name_ok(x); ec = INVALID_TOPIC; break;
                        case 1: a = PUB(0, 0, false, {ref::pnum(0x23, 3)}); a.topic = x; ok = ref::topic_alias_name_ok(x); ec = INVALID_TOPIC; break;
                        case 2: a = PUB(0, 0, false, {ref::pnum(0x01, 1)}); a.payload = x; ok = ref::mqtt_utf8_ok(x); break;
                        case 3: a = PUB(0, 0, false, {ref::pstr(0x08, x)}); ok = ref::topic_name_ok(x); break;
                        case 4: a = PUB(0, 0, false, {ref::pstr(0x03, x)}); ok = ref::mqtt_utf8_ok(x); break;
                        case 5: a = PUB(0, 0, false, {ref::ppair(x, "v")}); ok = ref::mqtt_utf8_ok(x); break;
                        case 6: a = PUB(0, 0, false, {ref::ppair("k", x)}); ok = ref::mqtt_utf8_ok(x); break;
                        case 7: a = SUB({{x, 1}}); ok = x.compare(0, 7, "$share/") == 0 ? ref::shared_filter_ok(x) : ref::topic_filter_ok(x); ec = INVALID_TOPIC; break;
                        case 8: a = SUB({{"$share/" + x, 1}}); ok = ref::shared_filter_ok("$share/" + x) && ("$share/" + x).size() <= 65535; ec = INVALID_TOPIC; break;
                        case 9: a = SUB({{"a", 1}}, {ref::ppair(x, "v")}); ok = ref::mqtt_utf8_ok(x); break;
                        case 10: a = UNSUB({x}); ok = x.compare(0, 7, "$share/") == 0 ? ref::shared_filter_ok(x) : ref::topic_filter_ok(x); ec = INVALID_TOPIC; break;
                        case 11: a = UNSUB({"a"}, {ref::ppair("k", x)}); ok = ref::mqtt_utf8_ok(x); break;
                        case 12: a = DISC(0, {ref::pstr(0x1F, x)}); ok = ref::mqtt_utf8_ok(x); break;
                        case 13: a = DISC(0, {ref::ppair(x, "v")}); ok = ref::mqtt_utf8_ok(x); break; }
                    a.tag = int(i + 1); if (a.k == Action::PUB && f != 2) a.payload = "payload-" + std::to_string(a.tag);
                    a.expect_reject = !ok; a.expect_ec = ok ? 0 : ec; s.script.push_back(a); s.script.push_back(BARRIER()); }
                if (f >= 12) s.epilogue_cancel = false;
                v.push_back(s); } }
        // numeric bounds: subscription identifier and topic alias
        { Scenario s = base("V-numeric-bounds", {RUN(), WAIT_HS(1)}, 0, 0, M_C16); s.broker.connack_props = {ref::pnum(0x22, 65535)}; int tag = 1;
          for (uint32_t sid : {0u, 1u, 127u, 268435455u, 268435456u, 0x7FFFFFFFu}) { Action a = SUB({{"n/" + std::to_string(tag), 1}}, {ref::pnum(0x0B, sid)}); a.tag = tag++; a.expect_reject = sid < 1 || sid > 268435455u; a.expect_ec = a.expect_reject ? 100 : 0; s.script.push_back(a); s.script.push_back(BARRIER()); }
          for (uint32_t al : {0u, 1u, 65535u}) { Action a = PUB(0, tag, false, {ref::pnum(0x23, al)}); a.tag = tag++; a.payload = "payload-" + std::to_string(a.tag); a.expect_reject = al == 0; a.expect_ec = al == 0 ? 100 : 0; s.script.push_back(a); s.script.push_back(BARRIER()); }
          { Action a = PUB(1, tag, false, {ref::pnum(0x0B, 5)}); a.tag = tag++; a.expect_reject = true; a.expect_ec = 100; s.script.push_back(a); s.script.push_back(BARRIER()); }
          { Action a = SUB({}); a.tag = tag++; a.expect_reject = true; a.expect_ec = 104; s.script.push_back(a); s.script.push_back(BARRIER()); }
          { Action a = UNSUB({}); a.tag = tag++; a.expect_reject = true; a.expect_ec = 104; s.script.push_back(a); s.script.push_back(BARRIER()); }
          v.push_back(s); }
    }
    else if (prop == "C04") {
        uint32_t fam = F_CHUNK | F_RDCUT | F_WR | F_TAIL | F_REORDER | F_LOSS | F_BCLOSE;
        ref::Props mp = {ref::pnum(0x01, 1), ref::pstr(0x03, "ct"), ref::ppair("mk", "mv"), ref::pnum(0x0B, 3), ref::pnum(0x0B, 4)};
        { auto s = base("M1-q0-q1-q2", {RUN(), RECV(12), SUB({{"b/#", 2}}), BARRIER(), BPUB(0, 1, mp), BPUB(1, 2, mp), BPUB(2, 3, mp)}, fam, tier ? 3 : 2, M_C04); v.push_back(s); s.name += "-tcp"; s.flavour = 1; s.D = tier ? 2 : 1; v.push_back(s); }
        { auto s = base("M2-q2-q2", {RUN(), RECV(12), SUB({{"b/#", 2}}), BARRIER(), BPUB(2, 1), BPUB(2, 2)}, fam, tier ? 3 : 2, M_C04); v.push_back(s); }
        { auto s = base("M3-q1x3", {RUN(), RECV(12), SUB({{"b/#", 2}}), BARRIER(), BPUB(1, 1), BPUB(1, 2), BPUB(1, 3)}, fam & ~F_CHUNK, 2, M_C04); v.push_back(s); }
        { auto s = base("M4-interleaved-with-publishing", {RUN(), RECV(12), SUB({{"b/#", 2}}), BARRIER(), BPUB(2, 1), PUB(2, 50), BPUB(1, 2), PUB(1, 51)}, fam & ~F_CHUNK, tier ? 2 : 1, M_C04 | M_C01); v.push_back(s); }
        // the broker reuses packet id 1 for consecutive messages (each sent once the previous exchange is settled)
        { auto s = base("M6-id-reuse-q2-q2-q1-q1", {RUN(), RECV(12), SUB({{"b/#", 2}}), BARRIER(), BPUB(2, 1), BWAIT(), BPUB(2, 2), BWAIT(), BPUB(1, 3), BWAIT(), BPUB(1, 4)}, fam & ~F_CHUNK, 2, M_C04); v.push_back(s); }
        { auto s = base("M5-session-lost", {RUN(), RECV(12), SUB({{"b/#", 2}}), BARRIER(), BPUB(2, 1), BPUB(1, 2)}, fam & ~F_CHUNK, 2, M_C04); s.broker.sp_policy = {-1, 0, -1}; v.push_back(s); }
        // a reconnect whose first attempt is refused (CONNACK 0x89, Session Present 0) before the session is resumed
        { auto s = base("M7-refused-then-resumed", {RUN(), RECV(12), SUB({{"b/#", 2}}), BARRIER(), BPUB(2, 1), BPUB(1, 2)}, fam & ~F_CHUNK, 2, M_C04); s.broker.connack_rc_script = {0, 0x89, 0, 0x89, 0}; v.push_back(s); }
        if (tier) { size_t n0 = v.size(); for (size_t i = 0; i < n0; ++i) { Scenario b = v[i]; b.name += "-bytecuts"; b.fam |= F_BYTE; b.D = 2; v.push_back(b); } }   // byte-granular cut positions at one deviation less
        for (auto& s : v) s.expect_all_success = false;
    }
    else if (prop == "C19" || prop == "C19a") {
        bool small = prop == "C19a" && !tier;     // the ASan build runs a thinner quick tier (same phases, 6-byte alphabet)
        // hostile broker: byte strings replace / precede the expected reply in six client phases, under every chunking
        static const unsigned char ALQ[] = {0x00, 0x01, 0x02, 0x20, 0x30, 0x40, 0x62, 0x90, 0xE0, 0xFF};
        static const unsigned char ALT[] = {0x00, 0x01, 0x02, 0x03, 0x10, 0x20, 0x30, 0x32, 0x40, 0x50, 0x62, 0x70, 0x7F, 0x80, 0x90, 0xB0, 0xD0, 0xE0, 0xF0, 0xFF};
        static const unsigned char ALS[] = {0x00, 0x01, 0x20, 0x40, 0x90, 0xFF};
        const unsigned char* AL = tier ? ALT : (small ? ALS : ALQ); int na = tier ? 20 : (small ? 6 : 10);
        std::vector<std::string> strs; for (int a = 0; a < na; ++a) { strs.push_back(std::string(1, char(AL[a]))); for (int b = 0; b < na; ++b) { std::string x; x.push_back(char(AL[a])); x.push_back(char(AL[b])); strs.push_back(x); for (int c = 0; c < na; ++c) { std::string y = x; y.push_back(char(AL[c])); strs.push_back(y); } } }
        // a few longer classics: short acks, negative remaining length in the handshake, oversize lengths
        for (auto& x : {std::string("\x40\x00", 2), std::string("\x40\x01\x00", 3), std::string("\x50\x01\x07", 3), std::string("\x90\x01\x00", 3), std::string("\x20\x00\x00\x00\x00\x00\x00\x00", 8), std::string("\x20\x01\x00\x00\x00\x00", 6),
                        std::string("\x20\x04\x00\x00\x7f\x26", 6), std::string("\x20\x00\x00\x00\x00", 5) + std::string(64, '\xAA'), std::string("\x20\x02\x00\x00\x00", 5) + std::string(200, '\x00'), std::string("\x30\xff\xff\xff\x7f", 5), std::string("\x30\xff\xff\xff\xff\x01", 6), std::string("\xF0\x02\x00\x05", 4), std::string("\xE0\x03\x00\x01\x1f", 5)}) strs.push_back(x);
        struct Ph { const char* name; std::vector<Action> script; int on_type; int nth; std::string reply; };
        ref::Packet pa; pa.type = ref::PUBACK; pa.pid = 1; pa.has_pid = true; pa.has_rc = true; pa.rc = 0; pa.has_props = true; pa.props = {ref::pstr(0x1F, "ok")};
        ref::Packet pr = pa; pr.type = ref::PUBREC; ref::Packet pc = pa; pc.type = ref::PUBCOMP; ref::Packet sa; sa.type = ref::SUBACK; sa.pid = 1; sa.has_pid = true; sa.rcs = {1, 2}; sa.props = {ref::ppair("k", "v")};
        ref::Packet ca; ca.type = ref::CONNACK; ca.rc = 0; ca.has_rc = true; ca.props = {ref::pnum(0x21, 10), ref::pstr(0x1F, "hi")};
        ref::Packet inb; inb.type = ref::PUBLISH; inb.flags = 2; inb.pid = 5; inb.has_pid = true; inb.topic = "t"; inb.payload = "xy"; inb.props = {ref::pnum(0x01, 1), ref::pnum(0x0B, 7), ref::ppair("k", "v")};
        ref::Packet prl; prl.type = ref::PUBREL; prl.flags = 2; prl.pid = 1; prl.has_pid = true; prl.has_rc = true; prl.rc = 0; prl.has_props = true; prl.props = {ref::pstr(0x1F, "rel")};
        std::vector<Ph> phases = {
            {"handshake", {RUN(), PUB(1, 1)}, ref::CONNECT, 1, ref::encode(ca)},
            {"idle", {RUN(), WAIT_HS(1), A(Action::BRAW), PUB(1, 1)}, 0, 0, ""},
            {"qos1-inflight", {RUN(), PUB(1, 1)}, ref::PUBLISH, 1, ref::encode(pa)},
            {"qos2-await-pubrec", {RUN(), PUB(2, 1)}, ref::PUBLISH, 1, ref::encode(pr)},
            {"qos2-await-pubcomp", {RUN(), PUB(2, 1)}, ref::PUBREL, 1, ref::encode(pc)},
            {"subscribe-inflight", {RUN(), SUB({{"a", 1}, {"b/#", 2}})}, ref::SUBSCRIBE, 1, ref::encode(sa)},
            // the client as receiver: mutations of an inbound PUBLISH carrying properties, and of the PUBREL of an inbound QoS 2 exchange
            {"idle-inbound-publish", {RUN(), WAIT_HS(1), RECV(2), A(Action::BRAW), PUB(1, 1)}, 0, 0, ref::encode(inb)},
            {"inbound-qos2-await-pubrel", {RUN(), WAIT_HS(1), RECV(2), BPUB(2, 100), PUB(1, 1)}, ref::PUBREC, 1, ref::encode(prl)},
        };
        // unsolicited (stale / duplicate) well-formed acknowledgements for the id the next request will get
        std::vector<std::string> stale; { ref::Packet q = pa; q.rc = 0x10; q.props = {ref::pstr(0x1F, "stale")}; stale.push_back(ref::encode(q)); q.type = ref::PUBREC; q.rc = 0; stale.push_back(ref::encode(q)); q.type = ref::PUBCOMP; stale.push_back(ref::encode(q));
            ref::Packet z = sa; z.rcs = {0x80, 0x80}; stale.push_back(ref::encode(z)); z.type = ref::UNSUBACK; z.rcs = {0x11}; stale.push_back(ref::encode(z)); }
        int id = 0, id_edge = 0;
        auto add = [&](const Ph& ph, const std::string& raw, const char* kind) {
            Scenario s = base(std::string("Z-") + ph.name + "-" + kind + "-" + std::to_string(id++), ph.script, F_CHUNK | F_BYTE, std::min<int>(tier ? 4 : (small ? 1 : 2), int(raw.size()) - 1), M_C19 | M_C01 | M_C14 | M_C02);
            if (s.D < 0) s.D = 0;
            if (ph.on_type) { s.broker.hostile.enabled = true; s.broker.hostile.on_type = ph.on_type; s.broker.hostile.nth = ph.nth; s.broker.hostile.raw = raw; }
            else for (auto& a : s.script) if (a.k == Action::BRAW) a.payload = raw;
            s.max_steps = 400; s.expect_note = rep_hex(raw); v.push_back(s); };
        // packets at the edge of the receive limit (default 65536, or the client's own Maximum Packet Size): header + body from limit-4 to limit+2 bytes
        for (int limit : {65536, 80}) for (int total = limit - 4; total <= limit + 2; ++total) for (int hdr : {0}) { (void)hdr;
            int rl = total - (total - 1 > 16383 + 3 ? 4 : total - 1 > 127 + 2 ? 3 : 2); // fixed header = 1 + varint size
            ref::Packet big; big.type = ref::PUBLISH; big.flags = 0; big.topic = "big"; big.payload = std::string(size_t(rl - 2 - 3 - 1), 'B'); std::string raw = ref::encode(big);
            Ph ph{"idle-size-edge", {RUN(), WAIT_HS(1), RECV(2), A(Action::BRAW), PUB(1, 1)}, 0, 0, ""};
            Scenario sc_ = base(std::string("Z-idle-size-edge-") + std::to_string(limit) + "-" + std::to_string(id_edge++), ph.script, F_CHUNK, tier ? 2 : 1, M_C19 | M_C01 | M_C02);
            for (auto& a : sc_.script) if (a.k == Action::BRAW) a.payload = raw; if (limit != 65536) sc_.connect_props = {ref::pnum(0x27, uint32_t(limit))}; sc_.max_steps = 400; v.push_back(sc_); }
        for (auto& st_ : stale) { Ph ph{"idle-stale-ack-sub", {RUN(), WAIT_HS(1), A(Action::BRAW), SUB({{"a", 1}, {"b/#", 2}}), PUB(1, 1)}, 0, 0, ""}; add(ph, st_, "stale"); Ph pu{"idle-stale-ack-unsub", {RUN(), WAIT_HS(1), A(Action::BRAW), UNSUB({"a"}), PUB(2, 1)}, 0, 0, ""}; add(pu, st_, "stale"); }
        for (auto& st_ : stale) for (int q = 1; q <= 2; ++q) { Ph ph{"idle-stale-ack", {RUN(), WAIT_HS(1), A(Action::BRAW), PUB(q, 1), SUB({{"a", 1}, {"b/#", 2}})}, 0, 0, ""}; add(ph, st_, "stale"); add(ph, st_ + st_, "stale2"); }
        for (auto& ph : phases) {
            for (auto& x : strs) add(ph, x, "str");
            if (ph.reply.empty()) continue;
            // every truncation of the expected reply and single-byte substitutions
            for (size_t t = 1; t < ph.reply.size(); ++t) add(ph, ph.reply.substr(0, t), "trunc");
            static const int VQ[] = {0x00, 0x01, 0x02, 0x7F, 0x80, 0xFF, -1, -2}; 
            for (size_t i = 0; i < ph.reply.size(); ++i) { if (tier) { for (int vv = 0; vv < 256; vv += 1) { if (vv == uint8_t(ph.reply[i])) continue; if (!tier) break; std::string m = ph.reply; m[i] = char(vv); if (vv % 3 == int(i % 3) || vv < 4 || vv > 0xFB) add(ph, m, "subst"); } }
                else for (int vv : VQ) { int val = vv == -1 ? uint8_t(ph.reply[i]) + 1 : vv == -2 ? uint8_t(ph.reply[i]) - 1 : vv; if ((val & 0xFF) == uint8_t(ph.reply[i])) continue; std::string m = ph.reply; m[i] = char(val); add(ph, m, "subst"); } }
            add(ph, ph.reply + std::string("\x00", 1), "extend"); add(ph, ph.reply + ph.reply, "double");
        }
    }
    else if (prop == "C20") {
        // every reason byte in every acknowledgement a broker sends in reply to a request, through the real client
        struct T { int type; int on_type; std::vector<Action> script; };
        std::vector<T> ts = { {ref::PUBACK, ref::PUBLISH, {RUN(), PUB(1, 1)}}, {ref::PUBREC, ref::PUBLISH, {RUN(), PUB(2, 1)}}, {ref::PUBCOMP, ref::PUBREL, {RUN(), PUB(2, 1)}},
                              {ref::SUBACK, ref::SUBSCRIBE, {RUN(), SUB({{"a", 1}})}}, {ref::UNSUBACK, ref::UNSUBSCRIBE, {RUN(), UNSUB({"a"})}} };
        for (auto& t : ts) for (int code = 0; code < 256; ++code) {
            Scenario s = base(std::string("RC-") + ref::ptype_name(t.type) + "-" + std::to_string(code), t.script, tier ? F_CHUNK : 0, tier ? 1 : 0, M_C20); s.rc_type = t.type; s.rc_code = code;
            ref::Packet a; a.type = uint8_t(t.type); a.pid = 1; a.has_pid = true; a.has_rc = true; a.rc = uint8_t(code); a.has_props = true; if (t.type == ref::SUBACK || t.type == ref::UNSUBACK) a.rcs = {uint8_t(code)};
            s.broker.hostile.enabled = true; s.broker.hostile.on_type = t.on_type; s.broker.hostile.nth = 1; s.broker.hostile.raw = ref::encode(a); s.expect_all_success = false; v.push_back(s); }
        // inbound QoS 2: PUBREL from the broker with every reason byte
        for (int code = 0; code < 256; ++code) { Scenario s = base("RC-PUBREL-" + std::to_string(code), {RUN(), RECV(4), SUB({{"b/#", 2}}), BARRIER(), BPUB(2, 1)}, 0, 0, M_C20); s.rc_type = ref::PUBREL; s.rc_code = code;
            ref::Packet a; a.type = ref::PUBREL; a.pid = 1; a.has_pid = true; a.has_rc = true; a.rc = uint8_t(code); a.has_props = true;
            s.broker.hostile.enabled = true; s.broker.hostile.on_type = ref::PUBREC; s.broker.hostile.nth = 1; s.broker.hostile.raw = ref::encode(a); s.broker.hostile.also_normal_reply = false; s.expect_all_success = false; s.monitors &= ~M_C04; v.push_back(s); }
    }
    else if (prop == "C17") {
        v = publish_scenarios(M_C17, 0); for (auto& s : v) s.D = 1;
        { auto s = base("W-sub-unsub-disconnect", {RUN(), SUB({{"a/+", 0x2D}, {"$share/g/x", 1}}, {ref::pnum(0x0B, 7), ref::ppair("k", "v")}), UNSUB({"a/+"}, {ref::ppair("k", "v")}), BARRIER(), DISC(0x04, {ref::pstr(0x1F, "bye"), ref::pnum(0x11, 30)})}, F_WR | F_RDCUT | F_REORDER, 1, M_C17); s.epilogue_cancel = false; v.push_back(s); }
    }
    return v;
}

} // namespace e1
