// Simulated transport for the simnet engine: every asynchronous stream operation parks its
// handler in the world object `Net`; nothing completes until the explorer applies an environment
// decision. Only asio is used here - no header of /repo.
#pragma once
#include <boost/asio/any_completion_handler.hpp>
#include <boost/asio/any_io_executor.hpp>
#include <boost/asio/associated_cancellation_slot.hpp>
#include <boost/asio/associated_executor.hpp>
#include <boost/asio/async_result.hpp>
#include <boost/asio/buffer.hpp>
#include <boost/asio/executor_work_guard.hpp>
#include <boost/asio/io_context.hpp>
#include <boost/asio/ip/tcp.hpp>
#include <boost/asio/post.hpp>
#include <boost/asio/prepend.hpp>
#include <boost/asio/socket_base.hpp>
#include <boost/system/error_code.hpp>
#include <functional>
#include <memory>
#include <optional>
#include <string>
#include <vector>

namespace sim {
namespace asio = boost::asio;
using error_code = boost::system::error_code;
using tcp = asio::ip::tcp;
using HandlerRW = asio::any_completion_handler<void(error_code, std::size_t)>;
using Handler0 = asio::any_completion_handler<void(error_code)>;
using WorkGuard = asio::executor_work_guard<asio::any_io_executor>;

enum OpKind { OP_CONNECT = 0, OP_READ = 1, OP_WRITE = 2, OP_SHUTDOWN = 3 };

struct StreamState {
    int id = -1;
    asio::any_io_executor ex;
    bool open = false, connected = false, shut = false, destroyed = false;
    int conn = -1;                          // connection id once connected
    tcp::endpoint remote;
    // parked operations
    bool connect_parked = false, connect_hung = false; Handler0 connect_h; tcp::endpoint connect_ep; std::optional<WorkGuard> connect_w;
    bool read_parked = false; HandlerRW read_h; char* read_ptr = nullptr; size_t read_cap = 0; std::optional<WorkGuard> read_w;
    bool write_parked = false; HandlerRW write_h; std::string write_data; bool write_delivered = false; bool write_hung = false; std::optional<WorkGuard> write_w;
    std::string lw_data; size_t lw_written = 0; int64_t lw_start_ns = 0; size_t lw_seq_start = 0;   // logical (composed) write in progress: asio::async_write continues after short writes
    bool shutdown_parked = false, shutdown_hung = false; Handler0 shutdown_h; std::optional<WorkGuard> shutdown_w;
    int64_t connect_started_ns = -1, closed_ns = -1, first_error_ns = -1, connect_done_ns = -1; bool connect_failed = false; bool closed_after_stop = false; /* closed while the client was being stopped (cancel / destruction / epilogue) */ int host_index = -1; size_t connect_seq = 0; int64_t read_cancelled_ns = -1;   // first time a parked read was cancelled through its slot (timed read)
};
using StreamPtr = std::shared_ptr<StreamState>;

struct Conn {
    int id = -1; int stream = -1; tcp::endpoint ep; int64_t opened_ns = 0;
    std::string c2b;           // bytes delivered to the broker, not yet parsed
    std::string b2c;           // bytes emitted by the broker, not yet read by the client
    bool dead = false; error_code dead_ec;      // transport failure injected
    bool broker_closed = false;                 // broker closed after its queued bytes (EOF once drained)
    bool client_closed = false;                 // client closed / shut down
    bool established = false;
    uint64_t bytes_c2b = 0, bytes_b2c_read = 0; int64_t last_read_ns = -1, first_read_start_ns = -1; std::vector<std::pair<uint64_t, int64_t>> read_marks;   // (cumulative bytes read, time)
    std::vector<size_t> read_mark_seq;   // op_seq at each read mark (orders reads against later write starts)
};

struct NetLogEntry { int64_t t; std::string what; };
struct WriteLog { int conn; int stream; std::string data; bool ok; size_t reported; int64_t t; size_t wire_mark; int64_t t_start; size_t seq_start; size_t seq_done; };   // seq_done: op_seq when the write completed

// Callbacks implemented by the broker model.
struct BrokerHooks {
    virtual ~BrokerHooks() {}
    virtual void on_open(int conn) = 0;
    virtual void on_bytes(int conn) = 0;          // new bytes in Conn::c2b
    virtual void on_client_close(int conn) = 0;
    virtual bool handshake_done(int conn) = 0;
};

class Net {
public:
    std::vector<StreamPtr> streams;               // in creation order (closed/destroyed ones stay for the log)
    std::vector<Conn> conns;
    std::vector<NetLogEntry> log;
    std::vector<WriteLog> wlog;                    // every completed stream write as the client saw it
    std::function<size_t()> wire_size;            // set by the world: current length of the broker's wire log
    BrokerHooks* broker = nullptr;
    bool tcp_like_shutdown = false;
    int connect_calls = 0, max_parallel_connects = 0, connects_after_stop = 0;
    bool stop_marker = false;                     // set by scenarios after cancel()/disconnect completion
    int writes_started_after_stop = 0;
    uint64_t handler_posts = 0; size_t op_seq = 0;   // op_seq: global counter of stream operations started (orders writes against app actions)
    int attempts_in_progress() const;             // streams between async_connect and (handshake done | closed)
    int max_attempts_in_progress = 0;

    StreamPtr new_stream(const asio::any_io_executor& ex);
    void stream_destroyed(const StreamPtr& s);
    void open(const StreamPtr& s);
    void close(const StreamPtr& s);               // aborts parked ops, FIN towards the broker
    void shutdown_both(const StreamPtr& s);       // tcp-like shutdown(): parked read -> eof, write -> broken_pipe
    // parking
    void park_connect(const StreamPtr& s, const tcp::endpoint& ep, Handler0 h);
    void park_read(const StreamPtr& s, char* p, size_t cap, HandlerRW h);
    void park_write(const StreamPtr& s, std::string data, HandlerRW h);
    void park_shutdown(const StreamPtr& s, Handler0 h);
    // completion primitives used by the explorer
    void complete_connect(const StreamPtr& s, error_code ec);
    void complete_read(const StreamPtr& s, error_code ec, size_t n);   // n bytes are taken from conn.b2c
    void complete_write(const StreamPtr& s, error_code ec, size_t n);
    void complete_shutdown(const StreamPtr& s, error_code ec);
    void deliver_to_broker(const StreamPtr& s, size_t nbytes);         // first nbytes of write_data reach the broker
    void kill_conn(int conn, error_code ec);
    void cancel_op(const StreamPtr& s, OpKind k);                       // per-operation cancellation
    int parked_count() const;
    int parallel_connects() const;
    Conn* conn_of(const StreamPtr& s) { return s->conn >= 0 ? &conns[s->conn] : nullptr; }
    void note(const std::string& w);
};

extern Net* g_net;

// ---------------------------------------------------------------------------------------------
// The stream type handed to mqtt_client. TcpLike selects the flavour for which the harness
// declares detail::is_basic_socket<> = true (plain-TCP shutdown path); the generic flavour takes
// the TLS/WebSocket-style path (swap the stream, then async_shutdown under the connection lock).
template <bool TcpLike>
class basic_sim_stream {
public:
    using executor_type = asio::any_io_executor;
    using protocol_type = tcp;
    using endpoint_type = tcp::endpoint;
    using lowest_layer_type = basic_sim_stream;

    explicit basic_sim_stream(const executor_type& ex) : _st(g_net->new_stream(ex)) {}
    template <typename Ctx, std::enable_if_t<std::is_convertible_v<Ctx&, asio::execution_context&>, bool> = true>
    explicit basic_sim_stream(Ctx& ctx) : basic_sim_stream(executor_type(ctx.get_executor())) {}
    basic_sim_stream(const basic_sim_stream&) = delete;
    basic_sim_stream& operator=(const basic_sim_stream&) = delete;
    ~basic_sim_stream() { if (g_net) g_net->stream_destroyed(_st); }

    executor_type get_executor() const noexcept { return _st->ex; }
    void open(const protocol_type&, error_code& ec) { ec = {}; g_net->open(_st); }
    void close(error_code& ec) { ec = {}; g_net->close(_st); }
    void cancel(error_code& ec) { ec = {}; }
    bool is_open() const { return _st->open; }
    endpoint_type remote_endpoint(error_code& ec) const {
        if (!_st->connected) { ec = asio::error::not_connected; return endpoint_type(); }
        ec = {}; return _st->remote;
    }
    template <typename Opt> void set_option(const Opt&, error_code& ec) { ec = {}; }
    void shutdown(asio::socket_base::shutdown_type, error_code& ec) { ec = {}; g_net->shutdown_both(_st); }

    template <typename Token>
    decltype(auto) async_connect(const endpoint_type& ep, Token&& token) {
        auto init = [st = _st](auto handler, endpoint_type ep) { g_net->park_connect(st, ep, Handler0(std::move(handler))); };
        return asio::async_initiate<Token, void(error_code)>(std::move(init), token, ep);
    }
    template <typename MB, typename Token>
    decltype(auto) async_read_some(const MB& buffers, Token&& token) {
        auto init = [st = _st](auto handler, const MB& b) {
            asio::mutable_buffer mb = asio::detail::buffer_sequence_adapter<asio::mutable_buffer, MB>::first(b);
            g_net->park_read(st, static_cast<char*>(mb.data()), asio::buffer_size(b) == 0 ? 0 : mb.size(), HandlerRW(std::move(handler)));
        };
        return asio::async_initiate<Token, void(error_code, std::size_t)>(std::move(init), token, buffers);
    }
    template <typename CB, typename Token>
    decltype(auto) async_write_some(const CB& buffers, Token&& token) {
        auto init = [st = _st](auto handler, const CB& b) {
            std::string data;
            for (auto it = asio::buffer_sequence_begin(b); it != asio::buffer_sequence_end(b); ++it) {
                asio::const_buffer cb(*it); data.append(static_cast<const char*>(cb.data()), cb.size());
            }
            g_net->park_write(st, std::move(data), HandlerRW(std::move(handler)));
        };
        return asio::async_initiate<Token, void(error_code, std::size_t)>(std::move(init), token, buffers);
    }
    const StreamPtr& state() const { return _st; }
private:
    StreamPtr _st;
};

using sim_stream = basic_sim_stream<false>;
using sim_tcp_stream = basic_sim_stream<true>;

// ADL shutdown hooks (found through namespace sim).
template <typename H> void async_shutdown(sim_stream& s, H&& handler) { g_net->park_shutdown(s.state(), Handler0(std::forward<H>(handler))); }
template <typename H> void async_shutdown(sim_tcp_stream& s, H&& handler) {
    error_code ec; s.shutdown(asio::socket_base::shutdown_both, ec); std::move(handler)(ec);
}

} // namespace sim
