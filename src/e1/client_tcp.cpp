// mqtt_client over the TCP-like simulated stream: the harness declares it a basic socket so that
// shutdown_op takes the plain-TCP branch (socket.shutdown(both), no stream swap).
#include "sim.hpp"
#include <boost/mqtt5/impl/shutdown_op.hpp>
namespace boost::mqtt5::detail { template <> constexpr bool is_basic_socket<sim::sim_tcp_stream> = true; }
#define STREAM_T sim::sim_tcp_stream
#include "client_impl.inc"
namespace cli { std::unique_ptr<IClient> make_client_tcp(asio::io_context& ioc) { return std::make_unique<Impl>(ioc); } }
