// Type-erased facade over mqtt_client<sim stream>, so that only one translation unit per
// stream flavour has to include the (slow to compile) library headers.
#pragma once
#include "../ref/mqtt_ref.hpp"
#include <boost/asio/cancellation_signal.hpp>
#include <boost/asio/io_context.hpp>
#include <boost/system/error_code.hpp>
#include <functional>
#include <memory>
#include <string>
#include <vector>

namespace cli {
namespace asio = boost::asio;
using error_code = boost::system::error_code;

struct WillSpec { bool present = false; std::string topic, payload; int qos = 0; bool retain = false; ref::Props props; };

// Scripted enhanced authentication: method + number of server challenges it answers.
struct AuthSpec { bool present = false; std::string method; bool fail_initial = false, fail_challenge = false, fail_final = false; };

struct Peek {
    bool available = false;
    int quota = -1, limit = -1, write_queue = -1, write_in_progress = -1;
    int reply_waiters = -1, fast_replies = -1;
    uint32_t last_serial = 0;
    bool mutex_locked = false; int mutex_waiting = -1;
    bool stream_open = false;
    int session_flags = -1;
    int free_id_intervals = -1; int lowest_free_id = -1; int free_ids_total = -1;
    int channel_backlog = -1;
};

using PubCb = std::function<void(error_code, int rc, ref::Props)>;
using SubCb = std::function<void(error_code, std::vector<uint8_t>, ref::Props)>;
using RecvCb = std::function<void(error_code, std::string topic, std::string payload, ref::Props)>;
using EcCb = std::function<void(error_code)>;

struct IClient {
    virtual ~IClient() {}
    virtual void brokers(const std::string& hosts, uint16_t port) = 0;
    virtual void credentials(const std::string& id, const std::string& user, const std::string& pass) = 0;
    virtual void keep_alive(uint16_t s) = 0;
    virtual void will(const WillSpec& w) = 0;
    virtual void connect_props(const ref::Props& p) = 0;
    virtual void authenticator(const AuthSpec& a) = 0;
    virtual void run(EcCb cb, asio::cancellation_slot slot) = 0;
    virtual void publish(int qos, std::string topic, std::string payload, bool retain, const ref::Props& props, PubCb cb, asio::cancellation_slot slot) = 0;
    virtual void subscribe(const std::vector<std::pair<std::string, uint8_t>>& topics, const ref::Props& props, SubCb cb, asio::cancellation_slot slot) = 0;
    virtual void unsubscribe(const std::vector<std::string>& topics, const ref::Props& props, SubCb cb, asio::cancellation_slot slot) = 0;
    virtual void receive(RecvCb cb, asio::cancellation_slot slot) = 0;
    virtual void disconnect(uint8_t rc, const ref::Props& props, EcCb cb, asio::cancellation_slot slot) = 0;
    virtual void re_authenticate() = 0;
    virtual void cancel() = 0;
    virtual void destroy() = 0;             // runs ~mqtt_client
    virtual void move_assign_fresh() = 0;   // client = mqtt_client(ioc)
    virtual bool alive() const = 0;
    virtual ref::Props connack_props() = 0;
    virtual Peek peek() = 0;
    virtual void poke_last_serial(uint32_t v) = 0;   // C06 wrap-around scenarios (peek builds only)
};

std::unique_ptr<IClient> make_client_generic(asio::io_context& ioc);
std::unique_ptr<IClient> make_client_tcp(asio::io_context& ioc);

} // namespace cli
