#pragma once
#include <cstdint>
namespace vclock {
constexpr int64_t BASE_NS = 1000000000LL * 1000;               // steady clock starts at 1000 s
constexpr int64_t EPOCH_OFFSET_NS = 1700000000LL * 1000000000LL; // system clock = steady + offset
int64_t now_ns();
void set_ns(int64_t t);
void reset();
void dns_config(uint32_t fail_mask, uint32_t two_addr_mask);
int dns_lookups();
}
