#pragma once
#include <cstdint>
namespace vclock {
constexpr int64_t BASE_NS = 1000000000LL * 1000;               // steady clock starts at 1000 s
constexpr int64_t EPOCH_OFFSET_NS = 1700000000LL * 1000000000LL; // system clock = steady + offset
int64_t now_ns();
void set_ns(int64_t t);
void reset();
void dns_config(uint32_t fail_mask, uint32_t two_addr_mask);
int dns_lookups();
// gated DNS: getaddrinfo blocks until the explorer releases it (slow DNS, stop actions while a resolve is in flight)
void dns_gate(bool on);
int dns_pending();
void dns_release(bool fail);
void dns_release_all();
}
