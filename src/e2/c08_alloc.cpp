// C08 (allocator half): explicit-state BFS over the real packet_id_allocator.
// Alphabet: allocate(), free(x) for every allocated x in the window
//   W = {1..LO} u {65536-HI..65535}; backgrounds: ids outside W all free (A) or all allocated (B).
// Reference model: (background, bitmask over W). Oracle after every transition:
//   allocate: result != 0 and not currently allocated; result == 0 iff all 65535 ids are allocated;
//   the set the allocator regards as free equals the complement of the model
//   (peek mode: compare normalised interval list; black-box: drain to exhaustion where affordable).
// Build with -fno-access-control (peek mode). With -DNO_PEEK states are rebuilt by replay.
#include <boost/mqtt5/detail/control_packet.hpp>
#include "../common/report.hpp"
#include <deque>
#include <unordered_set>
#include <chrono>

using Alloc = boost::mqtt5::detail::packet_id_allocator;

static int LO = 7, HI = 7;
static int WN() { return LO + HI; }
static uint16_t wid(int k) { return k < LO ? uint16_t(k + 1) : uint16_t(65535 - (WN() - 1 - k)); } // k-th window id, ascending
static int widx(uint16_t id) { if (id >= 1 && id <= LO) return id - 1; if (id >= 65536 - HI) return LO + (id - (65536 - HI)); return -1; }

struct Model { bool bg_alloc; uint32_t mask; // bit k set = wid(k) allocated
    bool allocated(uint16_t id) const { int k = widx(id); return k >= 0 ? (mask >> k) & 1 : bg_alloc; }
    bool full() const { return bg_alloc && mask == (1u << WN()) - 1; }
    // expected free intervals as (first,last) inclusive ascending
    std::vector<std::pair<int,int>> free_runs() const {
        std::vector<std::pair<int,int>> runs; int s = -1;
        auto push = [&](int a, int b) { if (!runs.empty() && runs.back().second + 1 == a) runs.back().second = b; else runs.emplace_back(a, b); };
        (void)s;
        for (int k = 0; k < LO; ++k) if (!((mask >> k) & 1)) push(wid(k), wid(k));
        if (!bg_alloc && LO + 1 <= 65535 - HI) push(LO + 1, 65535 - HI);
        for (int k = LO; k < WN(); ++k) if (!((mask >> k) & 1)) push(wid(k), wid(k));
        return runs;
    }
};

#ifndef NO_PEEK
static std::vector<std::pair<int,int>> peek_runs(const Alloc& a, bool& canonical) {
    std::vector<std::pair<int,int>> v; canonical = true;
    for (auto& iv : a._free_ids) { if (iv.end >= iv.start) canonical = false; v.emplace_back(int(iv.end) + 1, int(iv.start)); }
    for (size_t i = 0; i + 1 < v.size(); ++i) if (!(v[i + 1].second + 1 < v[i].first)) canonical = false;
    std::sort(v.begin(), v.end());
    std::vector<std::pair<int,int>> m;
    for (auto& r : v) { if (r.first > r.second) continue; if (!m.empty() && m.back().second + 1 >= r.first) m.back().second = std::max(m.back().second, r.second); else m.push_back(r); }
    return m;
}
static Alloc clone(const Alloc& a) { Alloc b; b._free_ids = a._free_ids; return b; }
#endif

struct Op { bool alloc; uint16_t id; };
struct State { Model m; std::vector<Op> hist;
#ifndef NO_PEEK
    std::vector<std::pair<uint16_t,uint16_t>> snap;
#endif
};

static rep::Report R;
static std::string hist_json(const char* base, const std::vector<Op>& h) {
    std::string s = "{\"kind\":\"c08\",\"base\":\""; s += base; s += "\",\"ops\":[";
    for (size_t i = 0; i < h.size(); ++i) { if (i) s += ","; s += h[i].alloc ? "\"alloc\"" : ("\"free:" + std::to_string(h[i].id) + "\""); }
    return s + "]}";
}

// Builds the base object for a background: "fresh", "high" (all W allocated, middle free), "full"
static void build_base(Alloc& a, const std::string& base, Model& m) {
    m.bg_alloc = false; m.mask = 0;
    if (base == "fresh") return;
    for (int i = 1; i <= 65535; ++i) {
        uint16_t id = a.allocate();
        if (id != i) { R.violation("C08:base-sequence", "fresh allocator did not hand out ids 1..65535 uniquely (got " + std::to_string(id) + " at step " + std::to_string(i) + ")", "{\"kind\":\"c08\",\"base\":\"full\",\"ops\":[]}"); }
    }
    uint16_t z = a.allocate();
    if (z != 0) R.violation("C08:overrun-not-reported", "65536th allocate returned " + std::to_string(z) + " instead of 0", "{\"kind\":\"c08\",\"base\":\"full\",\"ops\":[\"alloc\"]}");
    m.bg_alloc = true; m.mask = (1u << WN()) - 1;
    if (base == "high") { for (int id = LO + 1; id <= 65535 - HI; ++id) a.free(uint16_t(id)); m.bg_alloc = false; }
}

static void explore(const std::string& base, bool drain_all) {
    Alloc a0; Model m0; build_base(a0, base, m0);
    std::deque<State> frontier; std::unordered_set<uint64_t> seen;
    auto key = [](const Model& m) { return (uint64_t(m.bg_alloc) << 40) | m.mask; };
    State s0; s0.m = m0;
#ifndef NO_PEEK
    for (auto& iv : a0._free_ids) s0.snap.emplace_back(iv.start, iv.end);
#endif
    seen.insert(key(m0)); frontier.push_back(std::move(s0));
    uint64_t noncanon = 0;
    while (!frontier.empty()) {
        State st = std::move(frontier.front()); frontier.pop_front();
        R.states++;
        // enumerate ops
        std::vector<Op> ops; ops.push_back({true, 0});
        for (int k = 0; k < WN(); ++k) if ((st.m.mask >> k) & 1) ops.push_back({false, wid(k)});
        for (auto& op : ops) {
            // materialise the real object in this state
#ifndef NO_PEEK
            Alloc a; a._free_ids.clear(); for (auto& iv : st.snap) a._free_ids.emplace_back(iv.first, iv.second);
#else
            Alloc a; { Model tmp; build_base(a, base, tmp); for (auto& o : st.hist) { if (o.alloc) a.allocate(); else a.free(o.id); } }
#endif
            Model nm = st.m; auto nh = st.hist; nh.push_back(op);
            R.transitions++; R.evaluations++;
            bool expand = true;
            if (op.alloc) {
                uint16_t id = a.allocate();
                if (st.m.full()) {
                    if (id != 0) R.violation("C08:alloc-when-full", "allocate returned " + std::to_string(id) + " while all 65535 ids are in use", hist_json(base.c_str(), nh));
                    expand = false;
                } else if (id == 0) {
                    R.violation("C08:spurious-overrun", "allocate returned 0 (pid_overrun) although ids are free", hist_json(base.c_str(), nh)); expand = false;
                } else if (st.m.allocated(id)) {
                    R.violation("C08:duplicate-id", "allocate returned id " + std::to_string(id) + " which is still outstanding", hist_json(base.c_str(), nh)); expand = false;
                } else {
                    int k = widx(id);
                    if (k < 0) expand = false; // left the window: checked, not expanded
                    else nm.mask |= 1u << k;
                }
            } else {
                a.free(op.id); nm.mask &= ~(1u << widx(op.id));
            }
            if (!expand) continue;
            // oracle on the resulting free set
#ifndef NO_PEEK
            bool canonical; auto runs = peek_runs(a, canonical);
            if (!canonical) noncanon++;
            if (runs != nm.free_runs())
                R.violation(op.alloc ? "C08:freeset-after-alloc" : "C08:freeset-after-free",
                    "allocator's free set differs from the complement of the outstanding ids", hist_json(base.c_str(), nh));
#endif
            if (nm.bg_alloc || drain_all) {
                // black-box drain on a copy: remaining allocations must enumerate exactly the free ids
#ifndef NO_PEEK
                Alloc d = clone(a);
#else
                Alloc d; { Model tmp; build_base(d, base, tmp); for (auto& o : nh) { if (o.alloc) d.allocate(); else d.free(o.id); } }
#endif
                auto runs2 = nm.free_runs(); size_t total = 0; for (auto& r : runs2) total += r.second - r.first + 1;
                std::vector<bool> got(65536, false); bool ok = true; size_t n = 0;
                for (;; ++n) { uint16_t id = d.allocate(); if (id == 0) break; if (n > 65536 || got[id] || nm.allocated(id)) { ok = false; break; } got[id] = true; }
                if (!ok || n != total)
                    R.violation("C08:drain-mismatch", "draining the allocator did not yield exactly the free ids once each", hist_json(base.c_str(), nh));
                R.evaluations++;
            }
            if (seen.insert(key(nm)).second) {
                State ns; ns.m = nm; ns.hist = std::move(nh);
#ifndef NO_PEEK
                for (auto& iv : a._free_ids) ns.snap.emplace_back(iv.start, iv.end);
#endif
                if (R.samples.size() < R.max_samples && ns.hist.size() >= 5) R.sample(hist_json(base.c_str(), ns.hist));
                frontier.push_back(std::move(ns));
            }
        }
    }
    R.note_num("states_" + base, seen.size());
    R.note_num("noncanonical_interval_lists_" + base, noncanon);
}

static int replay(const std::string& base, const std::vector<std::string>& ops) {
    Alloc a; Model m; build_base(a, base, m);
    std::vector<bool> outstanding(65536, false);
    if (base != "fresh") for (int i = 1; i <= 65535; ++i) outstanding[i] = (base == "full") || widx(uint16_t(i)) >= 0;
    for (auto& o : ops) {
        if (o == "alloc") { uint16_t id = a.allocate(); printf("alloc -> %u%s\n", id, id && outstanding[id] ? "  (DUPLICATE: still outstanding)" : ""); if (id) outstanding[id] = true; }
        else { uint16_t id = uint16_t(atoi(o.c_str() + 5)); a.free(id); outstanding[id] = false; printf("free %u\n", id); }
    }
    return 0;
}

int main(int argc, char** argv) {
    const char* out = rep::arg_value(argc, argv, "--out");
    bool thorough = rep::arg_flag(argc, argv, "--thorough");
    if (const char* w = rep::arg_value(argc, argv, "--window")) { LO = HI = atoi(w); }
    if (const char* rb = rep::arg_value(argc, argv, "--replay-base")) {
        std::vector<std::string> ops; for (int i = 1; i < argc; ++i) if (!strncmp(argv[i], "alloc", 5) || !strncmp(argv[i], "free:", 5)) ops.push_back(argv[i]);
        return replay(rb, ops);
    }
#ifdef NO_PEEK
    LO = HI = 3; R.note("peek_unavailable", "true");
#endif
    R.rule = "BFS over the real packet_id_allocator: states = (background, subset of window ids outstanding), "
             "transitions = allocate / free(x in window); every state expanded; distinct_nontrivial = states reached "
             "whose free set is split into >= 2 runs (interval split/merge exercised)";
    R.max_samples = 6;
    explore("fresh", thorough);
    explore("high", thorough);
    explore("full", true);
    R.traces = R.transitions; // every transition is executed on the implementation
    // count nontrivial states: recompute from masks
    uint64_t nontriv = 0;
    for (int bg = 0; bg < 2; ++bg) for (uint32_t mk = 0; mk < (1u << WN()); ++mk) { Model m{bool(bg), mk}; if (m.free_runs().size() >= 2) nontriv++; }
    // only count if the BFS reached all states of both backgrounds
    uint64_t reachedA = std::stoull(R.notes["states_fresh"]) , reachedH = std::stoull(R.notes["states_high"]), reachedB = std::stoull(R.notes["states_full"]);
    R.note_num("window_ids", WN());
    R.distinct_nontrivial = (reachedB == (1u << WN()) && (reachedA == (1u << WN()) || reachedH == (1u << WN()))) ? nontriv : std::min<uint64_t>(nontriv, reachedA + reachedB);
    R.exhaustive = true;
    return R.write(out);
}
