// C11 (lock half): every operation history up to depth N over the real detail::async_mutex,
// replayed on a fresh io_context + mutex per history, against a FIFO-lock reference model.
// Alphabet: L (lock, slot connected), l (lock, no slot), U (unlock by the notified holder),
//           S<i>t / S<i>x (emit total / terminal cancellation on request i), C (cancel()),
//           R (run one ready handler), D (destroy the mutex).
// Epilogue of every history: destroy + drain, so that "exactly once" can be judged.
#include <boost/mqtt5/detail/async_mutex.hpp>
#include <boost/asio/io_context.hpp>
#include <boost/asio/bind_cancellation_slot.hpp>
#include <boost/asio/cancellation_signal.hpp>
#include "../common/report.hpp"
#include <memory>
#include <optional>
#include <unordered_set>
#include <sys/mman.h>
#include <sys/wait.h>
#include <unistd.h>

namespace asio = boost::asio;
using boost::mqtt5::detail::async_mutex;
using boost::system::error_code;

static int MAXREQ = 3;

struct Op { char k; int i; char t; };   // k in LlUSCRD
static std::string op_str(const Op& o) {
    std::string s(1, o.k); if (o.k == 'S') { s += std::to_string(o.i); s.push_back(o.t); } return s;
}

enum RS { QUEUED, GRANTED, NOTIFIED, RELEASED, CANCELLED, ABORTED_DONE };

struct Req { bool slot; RS st; bool signalled = false; int completions = 0; bool done = false; };

struct Outcome { std::string vio_sig, vio_detail; std::vector<Op> enabled; uint64_t model_digest = 0; bool any_waited = false, any_cancel = false; };

// Executes the history on the real object and the model; returns enabled next ops (for expansion).
static Outcome execute(const std::vector<Op>& hist, bool epilogue) {
    Outcome out;
    asio::io_context ioc;
    // the signals must outlive the mutex: ~async_mutex clears the slots of the waiters it still holds
    std::vector<Req> reqs; std::vector<std::unique_ptr<asio::cancellation_signal>> sigs;
    auto mtx = std::make_unique<async_mutex>(ioc.get_executor());
    int holder = -1;             // model: request that owns the lock (GRANTED or NOTIFIED)
    int cancels = 0; bool destroyed = false; bool in_lock_call = false; int ready = 0;
    std::vector<int> success_order;
    auto fail = [&](const std::string& sig, const std::string& d) { if (out.vio_sig.empty()) { out.vio_sig = sig; out.vio_detail = d; } };

    auto on_complete = [&](int r, error_code ec) {
        Req& q = reqs[r]; ready--;
        if (in_lock_call) fail("C11:completed-inside-lock", "lock() invoked the handler of request " + std::to_string(r) + " before returning");
        if (++q.completions > 1) { fail("C11:completed-twice", "request " + std::to_string(r) + " completed more than once"); return; }
        q.done = true;
        if (!ec) {
            if (q.st == CANCELLED) fail("C11:cancelled-waiter-acquired", "request " + std::to_string(r) + " was cancelled while queued but then obtained the lock");
            else if (holder != r) fail(holder >= 0 && reqs[holder].st == NOTIFIED ? "C11:two-holders" : "C11:out-of-order-grant",
                "request " + std::to_string(r) + " obtained the lock while the model's holder is " + std::to_string(holder));
            else { q.st = NOTIFIED; success_order.push_back(r); }
        } else if (ec == asio::error::operation_aborted) {
            if (q.st != CANCELLED) fail("C11:spurious-abort", "request " + std::to_string(r) + " got operation_aborted without being cancelled (state " + std::to_string(q.st) + ")");
            else q.st = ABORTED_DONE;
        } else fail("C11:other-error", "request " + std::to_string(r) + " completed with " + ec.message());
    };
    auto model_grant_next = [&]() {
        holder = -1;
        for (size_t r = 0; r < reqs.size(); ++r) if (reqs[r].st == QUEUED) { reqs[r].st = GRANTED; holder = int(r); ready++; break; }
    };
    auto do_op = [&](const Op& o) {
        switch (o.k) {
        case 'L': case 'l': {
            int r = int(reqs.size()); reqs.push_back(Req{o.k == 'L', QUEUED}); sigs.push_back(std::make_unique<asio::cancellation_signal>());
            if (holder < 0) { reqs[r].st = GRANTED; holder = r; ready++; } else out.any_waited = true;
            in_lock_call = true;
            auto h = [&, r](error_code ec) { on_complete(r, ec); };
            if (o.k == 'L') mtx->lock(asio::bind_cancellation_slot(sigs[r]->slot(), std::move(h)));
            else mtx->lock(std::move(h));
            in_lock_call = false;
            break; }
        case 'U': reqs[holder].st = RELEASED; mtx->unlock(); model_grant_next(); break;
        case 'S': {
            Req& q = reqs[o.i]; q.signalled = true;
            if (q.slot && q.st == QUEUED) { q.st = CANCELLED; ready++; out.any_cancel = true; }
            sigs[o.i]->emit(o.t == 't' ? asio::cancellation_type::total : asio::cancellation_type::terminal);
            break; }
        case 'C': cancels++; for (auto& q : reqs) if (q.st == QUEUED) { q.st = CANCELLED; ready++; out.any_cancel = true; } mtx->cancel(); break;
        case 'D': destroyed = true; for (auto& q : reqs) if (q.st == QUEUED) { q.st = CANCELLED; ready++; out.any_cancel = true; } mtx.reset(); break;
        case 'R': { size_t n = ioc.poll_one(); if (ioc.stopped()) ioc.restart(); if (n == 0) fail("C11:lost-handler", "model expects a ready completion but the context has none"); break; }
        }
        if (!destroyed) {
            bool model_locked = holder >= 0;
            if (mtx->is_locked() != model_locked) fail("C11:locked-flag", std::string("is_locked() is ") + (mtx->is_locked() ? "true" : "false") + " but the model " + (model_locked ? "has" : "has no") + " holder");
        }
    };
    for (auto& o : hist) { do_op(o); if (!out.vio_sig.empty()) return out; }

    // enabled ops in this state
    if (!destroyed) {
        if (int(reqs.size()) < MAXREQ) { out.enabled.push_back({'L', 0, 0}); out.enabled.push_back({'l', 0, 0}); }
        if (holder >= 0 && reqs[holder].st == NOTIFIED) out.enabled.push_back({'U', 0, 0});
        for (size_t r = 0; r < reqs.size(); ++r) if (reqs[r].slot && !reqs[r].signalled && !reqs[r].done) { out.enabled.push_back({'S', int(r), 't'}); out.enabled.push_back({'S', int(r), 'x'}); }
        if (cancels < 1) out.enabled.push_back({'C', 0, 0});
        out.enabled.push_back({'D', 0, 0});
    }
    if (ready > 0) out.enabled.push_back({'R', 0, 0});
    // model digest
    uint64_t h = 1469598103934665603ull; auto mix = [&](uint64_t v) { h ^= v; h *= 1099511628211ull; };
    for (auto& q : reqs) { mix(q.slot); mix(q.st); mix(q.signalled); } mix(holder + 1); mix(destroyed); mix(cancels); mix(ready);
    out.model_digest = h;

    if (epilogue) {
        if (!destroyed) { for (auto& q : reqs) if (q.st == QUEUED) { q.st = CANCELLED; ready++; } mtx.reset(); destroyed = true; }
        for (int guard = 0; guard < 1000; ++guard) { if (ioc.stopped()) ioc.restart(); if (ioc.poll() == 0) break; }
        for (size_t r = 0; r < reqs.size(); ++r)
            if (reqs[r].completions != 1) fail("C11:not-completed-once", "request " + std::to_string(r) + " completed " + std::to_string(reqs[r].completions) + " times by the end of the history");
        for (size_t i = 0; i + 1 < success_order.size(); ++i)
            if (success_order[i] > success_order[i + 1]) fail("C11:fifo-order", "lock granted out of arrival order");
    }
    return out;
}

static std::string hist_json(const std::vector<Op>& h) {
    std::string s = "{\"kind\":\"c11\",\"ops\":[";
    for (size_t i = 0; i < h.size(); ++i) { if (i) s += ","; s += "\"" + op_str(h[i]) + "\""; }
    return s + "]}";
}

static std::string hist_json(const std::vector<Op>& h);
struct Stats { uint64_t histories = 0, ops = 0, nontrivial = 0; };
static rep::Report R;
static std::unordered_set<uint64_t> g_states;

static char* g_cur = nullptr;   // shared slot: the history this worker is executing (attributes a crash)
static void dfs(std::vector<Op>& hist, int depth, Stats& st) {
    if (g_cur) { std::string h = hist_json(hist); strncpy(g_cur, h.c_str(), 1023); }
    Outcome o = execute(hist, true);
    st.histories++; st.ops += hist.size();
    if (o.any_waited && o.any_cancel) st.nontrivial++;
    g_states.insert(o.model_digest);
    if (!o.vio_sig.empty()) { R.violation(o.vio_sig, o.vio_detail, hist_json(hist)); return; }
    if (int(hist.size()) >= depth) { if (o.any_waited && o.any_cancel) R.sample(hist_json(hist)); return; }
    for (auto& op : o.enabled) { hist.push_back(op); dfs(hist, depth, st); hist.pop_back(); }
}

int main(int argc, char** argv) {
    const char* out = rep::arg_value(argc, argv, "--out");
    int depth = atoi(rep::arg_value(argc, argv, "--depth", "7"));
    MAXREQ = atoi(rep::arg_value(argc, argv, "--maxreq", "3"));
    int workers = atoi(rep::arg_value(argc, argv, "--workers", "16"));
    if (const char* rp = rep::arg_value(argc, argv, "--replay-ops")) {
        std::vector<Op> h; std::string s = rp; size_t p = 0;
        while (p < s.size()) { size_t q = s.find(',', p); std::string t = s.substr(p, q == std::string::npos ? q : q - p);
            Op o{t[0], 0, 0}; if (t[0] == 'S') { o.i = t[1] - '0'; o.t = t[2]; } h.push_back(o); if (q == std::string::npos) break; p = q + 1; }
        Outcome o = execute(h, true);
        printf("%s\n", o.vio_sig.empty() ? "ok" : (o.vio_sig + ": " + o.vio_detail).c_str());
        return o.vio_sig.empty() ? 0 : 1;
    }
    R.rule = "all histories up to the depth over {lock(slot), lock(no slot), unlock, signal_i(total|terminal), cancel(), run-one, destroy} "
             "with at most MAXREQ lock requests, each replayed on a fresh async_mutex + io_context and closed by destroy+drain; "
             "distinct_nontrivial = histories in which a request had to wait AND a cancellation hit a queued request";
    // split by first-two-op prefixes over forked workers
    std::vector<std::vector<Op>> prefixes;
    { std::vector<Op> h; Outcome o0 = execute(h, false);
      for (auto& a : o0.enabled) { h = {a}; Outcome o1 = execute(h, false); if (o1.enabled.empty() || depth < 2) { prefixes.push_back(h); continue; }
        for (auto& b : o1.enabled) { prefixes.push_back({a, b}); } } }
    struct Sh { volatile uint64_t histories, ops, nontrivial, states; volatile int next; char cur[64][1024]; };
    Sh* sh = (Sh*)mmap(nullptr, sizeof(Sh), PROT_READ | PROT_WRITE, MAP_SHARED | MAP_ANONYMOUS, -1, 0);
    std::string tmpl = std::string(out ? out : "/dev/null") + ".w";
    std::vector<pid_t> pids(workers, 0); int report_seq = 0; std::vector<std::string> report_files;
    auto spawn = [&](int w) {
        std::string rf = tmpl + std::to_string(report_seq++); report_files.push_back(rf);
        pid_t pid = fork();
        if (pid == 0) {
            g_cur = sh->cur[w % 64]; g_cur[0] = 0;
            Stats st;
            for (;;) { int k = __sync_fetch_and_add(&sh->next, 1); if (k >= int(prefixes.size())) break; auto h = prefixes[k]; dfs(h, depth, st);
                // flush statistics per prefix so that a later crash of this worker does not lose them
                __sync_fetch_and_add(&sh->histories, st.histories); __sync_fetch_and_add(&sh->ops, st.ops); __sync_fetch_and_add(&sh->nontrivial, st.nontrivial); st = Stats(); R.write(rf.c_str()); }
            __sync_fetch_and_add(&sh->states, g_states.size());
            R.write(rf.c_str());
            _exit(0);
        }
        pids[w] = pid;
    };
    for (int w = 0; w < workers; ++w) spawn(w);
    bool worker_died = false; int deaths = 0;
    for (int alive = workers; alive > 0;) {
        int st; pid_t p = wait(&st); if (p < 0) break; int w = -1; for (int i = 0; i < workers; ++i) if (pids[i] == p) w = i; if (w < 0) continue;
        if (WIFEXITED(st) && WEXITSTATUS(st) == 0) { alive--; continue; }
        // a crash / abort inside a history is a failure of the property (every waiter must be resolved), attributed to that history
        std::string h = sh->cur[w % 64]; if (h.empty()) { worker_died = true; alive--; continue; }
        R.violation("C11:process-death", "the process died (status " + std::to_string(st) + ") while replaying this lock history", h);
        if (++deaths < 200 && sh->next < int(prefixes.size())) spawn(w); else alive--;
    }
    // the short histories (length 0 and 1) are covered here
    { Stats st; std::vector<Op> h; Outcome o = execute(h, true); st.histories++; for (auto& a : execute(h, false).enabled) { h = {a}; Outcome o1 = execute(h, true); st.histories++; st.ops++; if (!o1.vio_sig.empty()) R.violation(o1.vio_sig, o1.vio_detail, hist_json(h)); }
      sh->histories += st.histories; sh->ops += st.ops; (void)o; }
    // merge worker reports (violations + samples) textually: workers wrote full reports; parse minimal parts
    for (auto& path : report_files) {
        FILE* f = fopen(path.c_str(), "r"); if (!f) continue;
        std::string s; char buf[4096]; size_t n; while ((n = fread(buf, 1, sizeof buf, f)) > 0) s.append(buf, n); fclose(f); unlink(path.c_str());
        // extract "violations":[ ... ] objects crudely: look for {"sig":"...","detail":"...","count":N,"replay":{...}}
        size_t p = 0;
        while ((p = s.find("{\"sig\":\"", p)) != std::string::npos) {
            size_t a = p + 8, b = s.find('"', a); std::string sig = s.substr(a, b - a);
            size_t d0 = s.find("\"detail\":\"", b) + 10, d1 = s.find("\",\"count\"", d0); std::string det = s.substr(d0, d1 - d0);
            size_t r0 = s.find("\"replay\":", d1) + 9, r1 = s.find("]}", r0) + 2; std::string rj = s.substr(r0, r1 - r0);
            R.violation(sig, det, rj); p = r1;
        }
        size_t sp = s.find("\"samples\":["); if (sp != std::string::npos) { size_t a = sp + 11; size_t e = s.find("],\"violations\"", a);
            std::string body = s.substr(a, e - a); size_t q = 0; while (q < body.size() && R.samples.size() < R.max_samples) { size_t z = body.find("]}", q); if (z == std::string::npos) break; R.sample(body.substr(q, z + 2 - q)); q = z + 3; } }
    }
    if (worker_died) { fprintf(stderr, "c11_mutex: a worker died abnormally\n"); return 2; }
    R.evaluations = sh->histories; R.transitions = sh->ops; R.states = sh->states; R.traces = sh->histories; R.distinct_nontrivial = sh->nontrivial;
    R.note_num("depth", depth); R.note_num("max_lock_requests", MAXREQ); R.note_num("prefixes", prefixes.size());
    R.note("states_note", "\"states = sum over workers of distinct reference-model states seen (a state seen by two workers is counted twice)\"");
    R.exhaustive = true;
    return R.write(out);
}
