// C20: complete enumeration of to_reason_code<category>(byte) for 9 categories x 256 bytes.
// The library header is included inside an unnamed namespace so that the function-local
// static tables get internal linkage and ASan puts red zones around them: a lookup that
// leaves its table is reported as global-buffer-overflow (child process dies, attributed to
// the (category, byte) it was evaluating).
#include <algorithm>
#include <cstdint>
#include <optional>
#include <ostream>
#include <string>
#include <type_traits>
#include <utility>
#include <sys/mman.h>
#include <sys/wait.h>
#include <unistd.h>

namespace {
#include <boost/mqtt5/reason_codes.hpp>
}

#include "../ref/mqtt_ref.hpp"
#include "../common/report.hpp"

namespace m5 = boost::mqtt5;
using cat_e = m5::reason_codes::category;

struct Shared { volatile int code; volatile int accepted[256]; volatile int value[256]; };

template <cat_e C>
static void run_codes(Shared* sh, int start) {
    for (int c = start; c < 256; ++c) {
        sh->code = c;
        auto r = m5::to_reason_code<C>(uint8_t(c));
        sh->accepted[c] = r.has_value() ? 1 : 0;
        sh->value[c] = r.has_value() ? r->value() : -1;
    }
    sh->code = 256;
}

struct Cat { const char* name; int ptype; void (*fn)(Shared*, int); };

int main(int argc, char** argv) {
    const char* out = rep::arg_value(argc, argv, "--out");
    const char* only = rep::arg_value(argc, argv, "--replay-cat");
    const char* only_code = rep::arg_value(argc, argv, "--replay-code");
    Cat cats[] = {
        {"connack", ref::CONNACK, run_codes<cat_e::connack>}, {"puback", ref::PUBACK, run_codes<cat_e::puback>},
        {"pubrec", ref::PUBREC, run_codes<cat_e::pubrec>}, {"pubrel", ref::PUBREL, run_codes<cat_e::pubrel>},
        {"pubcomp", ref::PUBCOMP, run_codes<cat_e::pubcomp>}, {"suback", ref::SUBACK, run_codes<cat_e::suback>},
        {"unsuback", ref::UNSUBACK, run_codes<cat_e::unsuback>}, {"auth", ref::AUTH, run_codes<cat_e::auth>},
        {"disconnect", ref::DISCONNECT, run_codes<cat_e::disconnect>},
    };
    rep::Report R;
    R.rule = "all 9 reason-code categories x 256 byte values through to_reason_code<cat>() under ASan; "
             "distinct_nontrivial = (category,byte) pairs MQTT 5 lists (acceptance required or permitted)";
    Shared* sh = (Shared*)mmap(nullptr, sizeof(Shared), PROT_READ | PROT_WRITE, MAP_SHARED | MAP_ANONYMOUS, -1, 0);
    for (auto& cat : cats) {
        if (only && std::string(only) != cat.name) continue;
        int start = only_code ? atoi(only_code) : 0;
        bool crashed[256] = {false};
        for (int c = 0; c < 256; ++c) { sh->accepted[c] = -1; sh->value[c] = -1; }
        while (start < 256) {
            sh->code = start;
            pid_t pid = fork();
            if (pid == 0) { cat.fn(sh, start); _exit(0); }
            int st = 0; waitpid(pid, &st, 0);
            if (sh->code >= 256) break;
            int c = sh->code; crashed[c] = true;
            start = c + 1;
            if (only_code) break;
        }
        int upto = only_code ? atoi(only_code) + 1 : 256;
        for (int c = only_code ? atoi(only_code) : 0; c < upto; ++c) {
            R.evaluations++; R.states++; R.transitions++; R.traces++;
            bool listed = ref::rc_listed(cat.ptype, uint8_t(c));
            bool must = ref::rc_server_may_send(cat.ptype, uint8_t(c));
            if (listed) R.distinct_nontrivial++;
            char rp[128]; snprintf(rp, sizeof rp, "{\"kind\":\"c20\",\"cat\":\"%s\",\"code\":%d}", cat.name, c);
            char sig[96];
            if (crashed[c]) {
                // one signature per category: the lookup leaves its table for every byte above the table maximum
                snprintf(sig, sizeof sig, "C20:oob:%s", cat.name);
                R.violation(sig, std::string("lookup left its table (sanitizer abort) for category ") + cat.name + " code " + std::to_string(c), rp);
                continue;
            }
            bool acc = sh->accepted[c] == 1;
            if (acc && !listed) { snprintf(sig, sizeof sig, "C20:accept-unlisted:%s:%02x", cat.name, c);
                R.violation(sig, "accepted a code MQTT 5 does not list for this packet type", rp); }
            if (!acc && must) { snprintf(sig, sizeof sig, "C20:reject-server-code:%s:%02x", cat.name, c);
                R.violation(sig, "rejected a code a Server may send here", rp); }
            if (acc && sh->value[c] != c) { snprintf(sig, sizeof sig, "C20:value-changed:%s:%02x", cat.name, c);
                R.violation(sig, "accepted code reported with a different value", rp); }
            if ((c == 0x00 || c == 0x92 || c == 0xA2 || c == 0xFF) && R.samples.size() < 8) {
                char s[160]; snprintf(s, sizeof s, "{\"cat\":\"%s\",\"code\":%d,\"accepted\":%s,\"listed\":%s,\"server_may_send\":%s}",
                    cat.name, c, acc ? "true" : "false", listed ? "true" : "false", must ? "true" : "false");
                R.max_samples = 8; R.sample(s);
            }
        }
    }
    R.exhaustive = !only;
    return R.write(out);
}
