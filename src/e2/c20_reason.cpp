// C20: complete enumeration of to_reason_code<category>(byte) for 9 categories x 256 bytes.
// The library header is included inside an unnamed namespace so that the function-local
// static tables get internal linkage and ASan puts red zones around them: a lookup that
// leaves its table is reported as global-buffer-overflow (child process dies, attributed to
// the (category, byte) it was evaluating).
#include <algorithm>
#include <cstdint>
#include <optional>
#include <ostream>
#include <string>
#include <type_traits>
#include <utility>
#include <sys/mman.h>
#include <sys/wait.h>
#include <unistd.h>

namespace {
#include <boost/mqtt5/reason_codes.hpp>
}

#include "../ref/mqtt_ref.hpp"
#include "../common/report.hpp"

namespace m5 = boost::mqtt5;
using cat_e = m5::reason_codes::category;

struct Shared { volatile int code; volatile int accepted[256]; volatile int value[256]; };

template <cat_e C>
static void run_codes(Shared* sh, int start) {
    for (int c = start; c < 256; ++c) {
        sh->code = c;
        auto r = m5::to_reason_code<C>(uint8_t(c));
        sh->accepted[c] = r.has_value() ? 1 : 0;
        sh->value[c] = r.has_value() ? r->value() : -1;
    }
    sh->code = 256;
}

struct Cat { const char* name; int ptype; void (*fn)(Shared*, int); };

int main(int argc, char** argv) {
    const char* out = rep::arg_value(argc, argv, "--out");
    const char* only = rep::arg_value(argc, argv, "--replay-cat");
    const char* only_code = rep::arg_value(argc, argv, "--replay-code");
    Cat cats[] = {
        {"connack", ref::CONNACK, run_codes<cat_e::connack>}, {"puback", ref::PUBACK, run_codes<cat_e::puback>},
        {"pubrec", ref::PUBREC, run_codes<cat_e::pubrec>}, {"pubrel", ref::PUBREL, run_codes<cat_e::pubrel>},
        {"pubcomp", ref::PUBCOMP, run_codes<cat_e::pubcomp>}, {"suback", ref::SUBACK, run_codes<cat_e::suback>},
        {"unsuback", ref::UNSUBACK, run_codes<cat_e::unsuback>}, {"auth", ref::AUTH, run_codes<cat_e::auth>},
        {"disconnect", ref::DISCONNECT, run_codes<cat_e::disconnect>},
    };
    rep::Report R;
    R.rule = "all 9 reason-code categories x 256 byte values through to_reason_code<cat>() under ASan; "
             "distinct_nontrivial = (category,byte) pairs MQTT 5 lists (acceptance required or permitted)";
    Shared* sh = (Shared*)mmap(nullptr, sizeof(Shared), PROT_READ | PROT_WRITE, MAP_SHARED | MAP_ANONYMOUS, -1, 0);
    for (auto& cat : cats) {
        if (only && std::string(only) != cat.name) continue;
        int start = only_code ? atoi(only_code) : 0;
        bool crashed[256] = {false};
        for (int c = 0; c < 256; ++c) { sh->accepted[c] = -1; sh->value[c] = -1; }
        while (start < 256) {
            sh->code = start;
            pid_t pid = fork();
            if (pid == 0) { cat.fn(sh, start); _exit(0); }
            int st = 0; waitpid(pid, &st, 0);
            if (sh->code >= 256) break;
            int c = sh->code; crashed[c] = true;
            start = c + 1;
            if (only_code) break;
        }
        int upto = only_code ? atoi(only_code) + 1 : 256;
        for (int c = only_code ? atoi(only_code) : 0; c < upto; ++c) {
            R.evaluations++; R.states++; R.transitions++; R.traces++;
            bool listed = ref::rc_listed(cat.ptype, uint8_t(c));
            bool must = ref::rc_server_may_send(cat.ptype, uint8_t(c));
            if (listed) R.distinct_nontrivial++;
            char rp[128]; snprintf(rp, sizeof rp, "{\"kind\":\"c20\",\"cat\":\"%s\",\"code\":%d}", cat.name, c);
            char sig[96];
            if (crashed[c]) {
                // one signature per category: the lookup leaves its table for every byte above the table maximum
                snprintf(sig, sizeof sig, "C20:oob:%s", cat.name);
                R.violation(sig, std::string("lookup left its table (sanitizer abort) for category ") + cat.name + " code " + std::to_string(c), rp);
                continue;
            }
            bool acc = sh->accepted[c] == 1;
            if (acc && !listed) { snprintf(sig, sizeof sig, "C20:accept-unlisted:%s:%02x", cat.name, c);
                R.violation(sig, "accepted a code MQTT 5 does not list for this packet type", rp); }
            if (!acc && must) { snprintf(sig, sizeof sig, "C20:reject-server-code:%s:%02x", cat.name, c);
                R.violation(sig, "rejected a code a Server may send here", rp); }
            if (acc && sh->value[c] != c) { snprintf(sig, sizeof sig, "C20:value-changed:%s:%02x", cat.name, c);
                R.violation(sig, "accepted code reported with a different value", rp); }
            if ((c == 0x00 || c == 0x92 || c == 0xA2 || c == 0xFF) && R.samples.size() < 8) {
                char s[160]; snprintf(s, sizeof s, "{\"cat\":\"%s\",\"code\":%d,\"accepted\":%s,\"listed\":%s,\"server_may_send\":%s}",
                    cat.name, c, acc ? "true" : "false", listed ? "true" : "false", must ? "true" : "false");
                R.max_samples = 8; R.sample(s);
            }
        }
    }
    // the named constants applications compare against must carry the values of the specification (reported verbatim = by name too)
    {
        namespace rc = boost::mqtt5::reason_codes;
        struct N { const char* name; int lib; int spec; } names[] = {
            {"success", rc::success.value(), 0x00}, {"normal_disconnection", rc::normal_disconnection.value(), 0x00}, {"granted_qos_0", rc::granted_qos_0.value(), 0x00}, {"granted_qos_1", rc::granted_qos_1.value(), 0x01},
            {"granted_qos_2", rc::granted_qos_2.value(), 0x02}, {"disconnect_with_will_message", rc::disconnect_with_will_message.value(), 0x04}, {"no_matching_subscribers", rc::no_matching_subscribers.value(), 0x10},
            {"no_subscription_existed", rc::no_subscription_existed.value(), 0x11}, {"continue_authentication", rc::continue_authentication.value(), 0x18}, {"reauthenticate", rc::reauthenticate.value(), 0x19},
            {"unspecified_error", rc::unspecified_error.value(), 0x80}, {"malformed_packet", rc::malformed_packet.value(), 0x81}, {"protocol_error", rc::protocol_error.value(), 0x82},
            {"implementation_specific_error", rc::implementation_specific_error.value(), 0x83}, {"unsupported_protocol_version", rc::unsupported_protocol_version.value(), 0x84},
            {"client_identifier_not_valid", rc::client_identifier_not_valid.value(), 0x85}, {"bad_username_or_password", rc::bad_username_or_password.value(), 0x86}, {"not_authorized", rc::not_authorized.value(), 0x87},
            {"server_unavailable", rc::server_unavailable.value(), 0x88}, {"server_busy", rc::server_busy.value(), 0x89}, {"banned", rc::banned.value(), 0x8A}, {"server_shutting_down", rc::server_shutting_down.value(), 0x8B},
            {"bad_authentication_method", rc::bad_authentication_method.value(), 0x8C}, {"keep_alive_timeout", rc::keep_alive_timeout.value(), 0x8D}, {"session_taken_over", rc::session_taken_over.value(), 0x8E},
            {"topic_filter_invalid", rc::topic_filter_invalid.value(), 0x8F}, {"topic_name_invalid", rc::topic_name_invalid.value(), 0x90}, {"packet_identifier_in_use", rc::packet_identifier_in_use.value(), 0x91},
            {"packet_identifier_not_found", rc::packet_identifier_not_found.value(), 0x92}, {"receive_maximum_exceeded", rc::receive_maximum_exceeded.value(), 0x93}, {"topic_alias_invalid", rc::topic_alias_invalid.value(), 0x94},
            {"packet_too_large", rc::packet_too_large.value(), 0x95}, {"message_rate_too_high", rc::message_rate_too_high.value(), 0x96}, {"quota_exceeded", rc::quota_exceeded.value(), 0x97},
            {"administrative_action", rc::administrative_action.value(), 0x98}, {"payload_format_invalid", rc::payload_format_invalid.value(), 0x99}, {"retain_not_supported", rc::retain_not_supported.value(), 0x9A},
            {"qos_not_supported", rc::qos_not_supported.value(), 0x9B}, {"use_another_server", rc::use_another_server.value(), 0x9C}, {"server_moved", rc::server_moved.value(), 0x9D},
            {"shared_subscriptions_not_supported", rc::shared_subscriptions_not_supported.value(), 0x9E}, {"connection_rate_exceeded", rc::connection_rate_exceeded.value(), 0x9F},
            {"maximum_connect_time", rc::maximum_connect_time.value(), 0xA0}, {"subscription_ids_not_supported", rc::subscription_ids_not_supported.value(), 0xA1},
            {"wildcard_subscriptions_not_supported", rc::wildcard_subscriptions_not_supported.value(), 0xA2} };
        if (!only) for (auto& n : names) { R.evaluations++; if (n.lib != n.spec) { char d[200]; snprintf(d, sizeof d, "reason_codes::%s has value 0x%02x, the specification assigns 0x%02x", n.name, n.lib, n.spec);
            R.violation(std::string("C20:named-constant:") + n.name, d, "{\"kind\":\"c20\",\"cat\":\"connack\",\"code\":0}"); } }
    }
    R.exhaustive = !only;
    return R.write(out);
}
