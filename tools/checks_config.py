"""Build targets and per-property job lists for run_check.py."""

OPT = ["-O2", "-DNDEBUG", "-g0", "-w"]
SIM = ["-O1", "-DNDEBUG", "-g0", "-w", "-DBOOST_ASIO_DISABLE_EPOLL", "-fno-access-control"]
SIM_ASAN = ["-O1", "-DNDEBUG", "-g0", "-w", "-DBOOST_ASIO_DISABLE_EPOLL", "-fno-access-control", "-fsanitize=address,undefined", "-fno-sanitize-recover=undefined", "-fno-omit-frame-pointer"]
ASAN = ["-O1", "-DNDEBUG", "-g", "-w", "-fsanitize=address", "-fno-omit-frame-pointer"]

TARGETS = {
    # E2 component explorers
    "c20_reason": {"sources": ["e2/c20_reason.cpp"], "deps": ["ref", "common"], "flags": ASAN},
    "c08_alloc": {"sources": ["e2/c08_alloc.cpp"], "deps": ["common"], "flags": OPT + ["-fno-access-control"],
                  "fallback_flags": OPT + ["-DNO_PEEK"]},
    "c11_mutex": {"sources": ["e2/c11_mutex.cpp"], "deps": ["common"], "flags": OPT},
    # E1 simnet: the real client over a simulated stream in virtual time
    "simnet": {"sources": ["e1/client_generic.cpp", "e1/client_tcp.cpp", "e1/world.cpp", "e1/scenarios.cpp", "e1/main.cpp", "e1/broker.cpp", "e1/sim.cpp", "e1/vclock.cpp"],
               "deps": ["ref", "common", "e1", "e3/glue.hpp"], "flags": SIM, "fallback_flags": SIM + ["-DSIMNET_NO_PEEK"]},
    "simnet_asan": {"sources": ["e1/client_generic.cpp", "e1/client_tcp.cpp", "e1/world.cpp", "e1/scenarios.cpp", "e1/main.cpp", "e1/broker.cpp", "e1/sim.cpp", "e1/vclock.cpp"],
                    "deps": ["ref", "common", "e1", "e3/glue.hpp"], "flags": SIM_ASAN, "fallback_flags": SIM_ASAN + ["-DSIMNET_NO_PEEK"]},
    # E3 codec / validator enumerators
    "c16_validators": {"sources": ["e3/c16_validators.cpp"], "deps": ["ref", "common"], "flags": OPT},
    "codec_enum": {"sources": ["e3/codec_enum.cpp"], "deps": ["ref", "common", "e3/glue.hpp"], "flags": OPT},
}

ASAN_ENV = {"ASAN_OPTIONS": "detect_leaks=0:abort_on_error=1:handle_abort=0:allocator_may_return_null=1", "UBSAN_OPTIONS": "halt_on_error=1:abort_on_error=1:print_stacktrace=0"}

SIM_ASSUME = ["sim streams replace sockets (StreamType template seam); TLS/WebSocket layers not instantiated",
              "reference broker and strict reference codec are trusted oracles",
              "time is virtual (link-time steady_clock/system_clock/time()); DNS answers come from the harness getaddrinfo",
              "bounds: deviations <= D per scenario as listed in coverage.jobs[].notes.scenarios"]

CHECKS = {
    "C04": {"jobs": [{"name": "simnet", "target": "simnet", "args": ["--set", "C04"], "thorough_args": ["--thorough"]}], "assumptions": SIM_ASSUME},
    "C05": {"budget_thorough": 5000, "jobs": [{"name": "simnet", "target": "simnet", "args": ["--set", "C05"], "thorough_args": ["--thorough"], "budget_thorough": 3300, "timeout_thorough": 3500},
                     # destruction / cancellation paths again under ASan+UBSan (use-after-free is the typical failure here), one deviation less
                     {"name": "simnet-asan", "target": "simnet_asan", "args": ["--set", "C05"], "quick_args": ["--dcap", "1"], "thorough_args": ["--thorough", "--dcap", "2"], "env": ASAN_ENV, "timeout_quick": 900, "budget_thorough": 1200, "timeout_thorough": 1400}],
            "assumptions": SIM_ASSUME},
    "C09": {"jobs": [{"name": "simnet", "target": "simnet", "args": ["--set", "C09"], "thorough_args": ["--thorough"]}], "assumptions": SIM_ASSUME},
    "C10": {"jobs": [{"name": "simnet", "target": "simnet", "args": ["--set", "C10"], "thorough_args": ["--thorough"]}], "assumptions": SIM_ASSUME},
    "C12": {"budget_thorough": 3300, "jobs": [{"name": "simnet", "target": "simnet", "args": ["--set", "C12"], "thorough_args": ["--thorough"], "budget_thorough": 3000, "timeout_thorough": 3200}], "assumptions": SIM_ASSUME},
    "C13": {"jobs": [{"name": "simnet", "target": "simnet", "args": ["--set", "C13"], "thorough_args": ["--thorough"]}], "assumptions": SIM_ASSUME},
    "C14": {"jobs": [{"name": "simnet", "target": "simnet", "args": ["--set", "C14"], "thorough_args": ["--thorough"]}], "assumptions": SIM_ASSUME},
    "C15": {"jobs": [{"name": "simnet", "target": "simnet", "args": ["--set", "C15"], "thorough_args": ["--thorough"]}], "assumptions": SIM_ASSUME},
    "C01": {"jobs": [{"name": "simnet", "target": "simnet", "args": ["--set", "C01"], "thorough_args": ["--thorough"]}], "assumptions": SIM_ASSUME},
    "C02": {"jobs": [{"name": "simnet", "target": "simnet", "args": ["--set", "C02"], "thorough_args": ["--thorough"]}], "assumptions": SIM_ASSUME},
    "C03": {"jobs": [{"name": "simnet", "target": "simnet", "args": ["--set", "C03"], "thorough_args": ["--thorough"]}], "assumptions": SIM_ASSUME},
    "C06": {"jobs": [{"name": "simnet", "target": "simnet", "args": ["--set", "C06"], "thorough_args": ["--thorough"]}], "assumptions": SIM_ASSUME},
    "C07": {"jobs": [{"name": "simnet", "target": "simnet", "args": ["--set", "C07"], "thorough_args": ["--thorough"]}], "assumptions": SIM_ASSUME},
    "C08": {"jobs": [
        {"name": "wire-ids", "target": "simnet", "args": ["--set", "C08"], "thorough_args": ["--thorough"]},
        {"name": "allocator-bfs", "target": "c08_alloc", "thorough_args": ["--thorough"]},
    ], "assumptions": ["window of 14 packet ids (1..7, 65529..65535) with the rest of the id space uniformly free or uniformly allocated",
                       "single-threaded use, as the library requires"]},
    "C11": {"jobs": [
        {"name": "simultaneous-failures", "target": "simnet", "args": ["--set", "C11"], "thorough_args": ["--thorough"]},
        {"name": "mutex-histories", "target": "c11_mutex", "quick_args": ["--depth", "10", "--maxreq", "4"],
         "thorough_args": ["--depth", "13", "--maxreq", "5"], "timeout_thorough": 3000},
    ], "assumptions": ["all handlers run on one io_context thread (the library is not thread-safe)"]},
    "C16": {"jobs": [
        {"name": "public-api", "target": "simnet", "args": ["--set", "C16"], "thorough_args": ["--thorough"]},
        {"name": "validators", "target": "c16_validators", "thorough_args": ["--thorough"]},
    ], "assumptions": ["reference recogniser transcribed from Unicode Table 3-7 and MQTT 5 sections 1.5.4, 4.7, 4.8.2"]},
    "C17": {"jobs": [
        {"name": "wire-monitor", "target": "simnet", "args": ["--set", "C17"], "thorough_args": ["--thorough"]},
        {"name": "encoders", "target": "codec_enum", "args": ["--mode", "c17"], "thorough_args": ["--thorough"]},
    ], "assumptions": ["reference strict decoder (src/ref/mqtt_ref.hpp) is the trusted oracle", "fields > 65535 bytes and bodies > 256 MiB are outside the bound"]},
    "C18": {"jobs": [
        {"name": "decoders", "target": "codec_enum", "args": ["--mode", "c18"], "thorough_args": ["--thorough"]},
    ], "assumptions": ["reference encoder (src/ref/mqtt_ref.hpp) generates only well-formed packets (self-checked by its own strict decoder)"]},
    "C19": {"parallel_jobs": 1, "budget_quick": 2700, "budget_thorough": 7000, "jobs": [
        {"name": "hostile-broker", "target": "simnet", "args": ["--set", "C19"], "thorough_args": ["--thorough"], "budget_quick": 900, "timeout_quick": 1000, "budget_thorough": 2400, "timeout_thorough": 2600},
        {"name": "hostile-broker-asan", "target": "simnet_asan", "args": ["--set", "C19a"], "thorough_args": ["--thorough"], "env": ASAN_ENV, "budget_quick": 900, "timeout_quick": 1000, "budget_thorough": 2400, "timeout_thorough": 2600},
        {"name": "decoder-guard-pages", "target": "codec_enum", "args": ["--mode", "c19"], "thorough_args": ["--thorough"], "timeout_thorough": 3000},
    ], "assumptions": ["over-/under-reads are observed through PROT_NONE guard pages adjacent to the packet body"]},
    "C20": {"jobs": [
        {"name": "reason-code-tables", "target": "c20_reason", "env": ASAN_ENV},
        {"name": "client-sweep", "target": "simnet", "args": ["--set", "C20"], "thorough_args": ["--thorough"]},
    ], "assumptions": ["tables transcribed from MQTT 5 sections 3.2.2.2, 3.4.2.1, 3.5.2.1, 3.6.2.1, 3.7.2.1, 3.9.3, 3.11.3, 3.14.2.1, 3.15.2.1"]},
}


def replay_command(rec, exe):
    r = rec.get("replay") or {}
    kind = r.get("kind")
    if kind == "c20":
        return [exe, "--replay-cat", r["cat"], "--replay-code", str(r["code"])]
    if kind == "c08":
        return [exe, "--replay-base", r["base"]] + r["ops"]
    if kind == "c11":
        return [exe, "--replay-ops", ",".join(r["ops"])]
    if kind == "c16":
        return [exe, "--replay-hex", r["hex"]]
    if kind == "codec":
        cmd = [exe, "--mode", r["mode"], "--replay-hex", r["hex"]]
        if r["mode"] == "c19":
            cmd += ["--entry", r["entry"], "--b0", str(r["b0"])]
        return cmd
    if kind == "simnet":
        return [exe, "--replay", rec.get("_path", "")]
    return [exe]
