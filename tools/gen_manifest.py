#!/usr/bin/env python3
"""Regenerates /verif/MANIFEST.json from tools/checks_config.py + the per-property texts below."""
import json, os, sys
HERE = os.path.dirname(os.path.abspath(__file__))
sys.path.insert(0, HERE)
from checks_config import CHECKS  # noqa

TEXT = {
 "C01": ("exhaustive deviation-bounded exploration of the real client in a simulated network (simnet)",
         "Every schedule / fault placement up to the completed deviation bound of the publish scenarios is executed on the real mqtt_client against a reference broker; success completions are joined to the broker log (PUBLISH fields, ack id, reason code, properties).",
         "reference broker and codec are trusted; bounds: scripts of <= 4 publishes, deviations <= D as reported in evidence"),
 "C02": ("exhaustive fault-position enumeration + fault-free suffix in virtual time (simnet)",
         "Every single (and pair of) recoverable fault(s) at every choice point of the scenarios, followed by a fault-free suffix in virtual time; all accepted operations must complete with success and retransmissions keep their packet id.",
         "only recoverable faults are injected; horizon 300 virtual seconds after the last deviation"),
 "C03": ("exhaustive loss placement around the four QoS 2 steps (simnet)",
         "Wire history of each tagged QoS 2 message over all connections is checked for every explored loss placement and reordering.",
         "DUP=1 demanded only after a write reported successful to the client"),
 "C04": ("exhaustive exploration with the reference broker acting as sender (simnet)",
         "Inbound QoS 0/1/2 mixes x chunking x loss x retransmission; acknowledgement sequence and async_receive sequence compared with the broker's send log.",
         "backlog bound 65535 not reachable"),
 "C05": ("injection of cancel/disconnect/signal/destruction at every choice point (simnet)",
         "Each base scenario is re-run with the disruptive action injected at every choice point; completion counters, re-entrancy flag and io_context work are checked.",
         "sim streams instead of real sockets"),
 "C06": ("exhaustive exploration of publish bursts x acks x throttling x reconnects (simnet)",
         "Per-connection wire order of tagged PUBLISH packets compared with initiation order for every explored schedule, including serial-number wrap-around.",
         "bursts of <= 4 publishes"),
 "C07": ("exhaustive exploration with a broker-side in-flight counter (simnet)",
         "Receive Maximum in {1,2,3}; every explored interleaving of publishes, acks, reconnects and per-operation cancellations is checked against the broker's in-flight count and for starvation.",
         "in-flight counted at the receiver"),
 "C08": ("explicit-state BFS of the real packet_id_allocator + simnet wire monitor",
         "All 2x2^14 allocator states over two id windows and both backgrounds are expanded with allocate/free against a set model (free-set equality after every transition, drain check); the simnet monitor checks id uniqueness among outstanding exchanges on the wire.",
         "window of 14 ids; rest of the id space uniform"),
 "C09": ("injection of async_disconnect at every choice point + later network behaviour (simnet, virtual time)",
         "DISCONNECT first/alone/last on the connection, completion within 5 virtual seconds, all other ops aborted, silence afterwards, restart works.",
         "handshake packets of a connection opened after the call are not 'the next thing written'"),
 "C10": ("configuration product x handshake-outcome sequences (simnet, virtual time)",
         "First packet of every connection is strictly decoded and compared with the configuration; nothing but AUTH before CONNACK; attempt order and pauses measured in virtual time.",
         "TLS/WebSocket layers not instantiated"),
 "C11": ("exhaustive history enumeration of the real async_mutex + simnet overlap monitor",
         "Every operation history up to the depth over lock/unlock/per-waiter signal/cancel/destroy is replayed on a fresh async_mutex against a FIFO-lock model; simnet scenarios make transport failures coincide and check that at most one connection attempt is in progress.",
         "single-threaded executor"),
 "C12": ("keep-alive configurations x traffic patterns in exact virtual time (simnet)",
         "PINGREQ emission times and the abandon time of a silent connection are compared with K and 1.5K in integer nanoseconds.",
         "instants are those at which the client's handlers ran"),
 "C13": ("all sequences of subscribe outcomes / reconnects / Session Present values up to length 6 (simnet)",
         "async_receive error sequence compared with a two-flag reference replayed over the broker's history.",
         ""),
 "C14": ("enumeration of topic lists x options x acknowledgement contents x faults (simnet)",
         "Handler reason codes compared position by position with the acknowledgement the broker sent; acknowledgements with wrong count or inadmissible codes must not yield success.",
         ""),
 "C15": ("CONNACK capability product x boundary requests (simnet)",
         "Every packet received by the broker is checked against the capabilities it announced; violating requests complete immediately with the documented code, leave the id allocator untouched and write nothing.",
         ""),
 "C16": ("bounded-exhaustive enumeration of validator inputs against an independent recogniser",
         "All byte strings <= 3, all strings <= 5 over a 28-class alphabet, every code point, 4-byte lead/continuation grid, $share forms and size bounds through six validators; accept iff well-formed.",
         "recogniser transcribed from Unicode Table 3-7 and MQTT 5"),
 "C17": ("bounded-exhaustive enumeration of encoder arguments, strict reference decode",
         "Presence space (every property subset) and boundary space for every packet type the client emits; output must parse strictly and yield the supplied values.",
         "reference decoder trusted"),
 "C18": ("bounded-exhaustive enumeration of reference-encoded packets through the library decoders",
         "Presence and boundary spaces incl. all short forms; decoded fields must equal the generator's; re-encode/re-decode fixpoint.",
         "reference encoder trusted (self-checked by the strict decoder)"),
 "C19": ("exhaustive short-input / mutation enumeration against guard pages (+ hostile broker in simnet)",
         "All short bodies, all single-byte substitutions and truncations of a reference corpus and length lies through every decoder with PROT_NONE pages on both sides; faults, exceptions and hangs are violations.",
         "guard pages observe reads outside the packet body"),
 "C20": ("complete enumeration of 9 categories x 256 bytes under ASan",
         "The finite input space is enumerated completely; acceptance compared with the MQTT 5 tables; table over-reads caught by ASan red zones around the (internal-linkage) tables.",
         "tables transcribed from the specification"),
}

NOT_APPLICABLE = {}

def main():
    checks = []
    for pid in sorted(CHECKS):
        tech, text, note = TEXT[pid]
        has_thorough = True
        checks.append({
            "property_id": pid,
            "quick_cmd": "python3 run_check.py %s --tier quick" % pid,
            "thorough_cmd": "python3 run_check.py %s --tier thorough" % pid,
            "evidence_file": "/verif/evidence/%s.json" % pid,
            "replay_cmd_template": "python3 run_check.py --replay {path}",
            "engine": ",".join(sorted({j["target"] for j in CHECKS[pid]["jobs"]})),
            "level_claimed": {"category": "model_checking", "text": text, "design_ref": "DESIGN.md section 6, " + pid},
            "level_note": note or "see DESIGN.md",
            "technique": tech,
        })
    na = [{"property_id": p, "reason": r} for p, r in sorted(NOT_APPLICABLE.items())]
    for pid in sorted(TEXT):
        if pid not in CHECKS and pid not in NOT_APPLICABLE:
            na.append({"property_id": pid, "reason": "check not built yet in this round (simnet scenario pending); model checking applies - see DESIGN.md section 6"})
    m = {
        "version": 1,
        "setup_cmd": "python3 run_check.py --setup",
        "hooks": {"guard": "BOOST_MQTT5_VERIF", "enable": "none needed: the harnesses use template seams (StreamType), link-time clock/DNS definitions and -fno-access-control peeks; no source hook is compiled",
                  "baseline_off_cmd": "cmake --build /repo/_build -j16 && ctest --test-dir /repo/_build/test -j8 --timeout 900",
                  "source_commits": [], "add_only": True},
        "engines": [
            {"name": "E1 simnet", "path": "src/e1", "serves_properties": [p for p in sorted(CHECKS) if any(j["target"].startswith("simnet") for j in CHECKS[p]["jobs"])],
             "kind_free_text": "stateless deviation-bounded DFS over environment decisions (network, broker, time, application) driving the real mqtt_client over a simulated stream in virtual time"},
            {"name": "E2 component explorers", "path": "src/e2", "serves_properties": ["C08", "C11", "C20"],
             "kind_free_text": "explicit-state BFS / exhaustive history enumeration on the real packet_id_allocator, async_mutex and reason-code tables"},
            {"name": "E3 codec enumerators", "path": "src/e3", "serves_properties": ["C16", "C17", "C18", "C19"],
             "kind_free_text": "bounded-exhaustive input enumeration against an independent reference codec, guard pages for memory safety"},
        ],
        "checks": checks,
        "not_applicable": na,
        "notes": "All deciding steps are exhaustive enumerations within stated bounds executed on the implementation itself; see DESIGN.md.",
    }
    with open(os.path.join(os.path.dirname(HERE), "MANIFEST.json"), "w") as f:
        json.dump(m, f, indent=1)
    print("MANIFEST.json: %d checks, %d not_applicable" % (len(checks), len(na)))

if __name__ == "__main__":
    main()
