#!/usr/bin/env python3
"""Confirms a seeded defect produced in a scratch worktree and files it under /verif/seeded/<name>/.

  confirm_seed.py <name> <property> <worktree> <outdir> <demo.cpp> [--checks C06,C07] [--needs "..."]

Confirms independently of whoever wrote the change:
  1. the worktree's diff touches only include/ and equals outdir/patch.diff
  2. the repository test suite built in <worktree>/_b is newer than the changed headers and passes
  3. the demonstration fails when built against the changed headers and passes against pristine ones
  4. (optional) runs the listed /verif checks against the worktree (VERIF_REPO=<worktree>) and records the verdicts
"""
import json, os, shutil, subprocess, sys, tempfile, time

def sh(cmd, **kw):
    try:
        return subprocess.run(cmd, shell=True, stdout=subprocess.PIPE, stderr=subprocess.STDOUT, text=True, **kw)
    except subprocess.TimeoutExpired as e:
        class R: pass
        r = R(); r.returncode = -9; r.stdout = "TIMEOUT " + str(e.timeout); return r

def main():
    name, prop, wt, outdir, demo = sys.argv[1:6]
    checks = []; needs = ""
    a = sys.argv[6:]
    if "--checks" in a: checks = a[a.index("--checks") + 1].split(",")
    if "--needs" in a: needs = a[a.index("--needs") + 1]
    ran = []
    diff = sh("git -C %s diff -- include" % wt).stdout
    files = sh("git -C %s diff --name-only" % wt).stdout.split()
    assert diff.strip(), "no change in worktree"
    assert all(f.startswith("include/") for f in files), "change touches files outside include/: %s" % files
    ran.append("git -C %s diff --name-only -> %s" % (wt, files))
    # 2. suite
    exe = os.path.join(wt, "_b/test/boost_mqtt5-tests")
    assert os.path.exists(exe), "test suite not built in worktree"
    newest_hdr = max(os.path.getmtime(os.path.join(wt, f)) for f in files)
    assert os.path.getmtime(exe) > newest_hdr, "test binary is older than the changed headers"
    r = sh(exe + " --report_level=short", timeout=900)
    suite_ok = r.returncode == 0 and "has passed" in r.stdout
    ran.append("%s --report_level=short -> rc=%d %s" % (exe, r.returncode, " ".join(r.stdout.split()[-12:])))
    tries = 1
    while not suite_ok and tries < 5:   # the suite uses real-time timers: a few receive-side cases flake when the machine is loaded
        tries += 1
        r = sh(exe + " --report_level=short", timeout=1200)
        suite_ok = r.returncode == 0 and "has passed" in r.stdout
        failed = [l for l in r.stdout.splitlines() if "error" in l and "in \"" in l][:3]
        ran.append("retry %d -> rc=%d %s" % (tries, r.returncode, failed))
    # 3. demo with / without
    tmp = tempfile.mkdtemp(prefix="seedconf_", dir="/tmp")
    sh("git -C %s archive HEAD include | tar -x -C %s" % (wt, tmp))
    res = {}
    for label, inc in (("with", os.path.join(wt, "include")), ("without", os.path.join(tmp, "include"))):
        binp = os.path.join(tmp, "demo_" + label)
        c = sh("g++ -std=c++17 -O1 -w -I%s -I%s/test/include %s -o %s -pthread" % (inc, wt, demo, binp), timeout=1200)
        if c.returncode != 0:
            res[label] = ("compile-failed", c.stdout[-800:]); continue
        rr = sh(binp, timeout=600)
        res[label] = (rr.returncode, " ".join(rr.stdout.split()[-16:]))
        ran.append("demo %s the change -> rc=%s" % (label, rr.returncode))
    demo_ok = res["with"][0] not in (0, "compile-failed") and res["without"][0] == 0
    # 4. our checks
    verdicts = {}
    for c in checks:
        t0 = time.time()
        rr = sh("cd /verif && VERIF_REPO=%s python3 run_check.py %s" % (wt, c), timeout=3600)
        lines = [l for l in rr.stdout.splitlines() if l.startswith("VIOLATION") or l.startswith("  C") or l.startswith("OK ") or l.startswith("HARNESS")]
        verdicts[c] = {"exit": rr.returncode, "lines": lines[:8], "wall_s": round(time.time() - t0, 1)}
        ran.append("VERIF_REPO=%s python3 run_check.py %s -> exit %d" % (wt, c, rr.returncode))
    shutil.rmtree(tmp, ignore_errors=True)
    ok = suite_ok and demo_ok
    dst = os.path.join("/verif/seeded", name)
    if ok:
        os.makedirs(dst, exist_ok=True)
        with open(os.path.join(dst, "patch.diff"), "w") as f: f.write(diff)
        shutil.copy(demo, os.path.join(dst, os.path.basename(demo)))
        for extra in ("README.txt", "notes.txt"):
            p = os.path.join(outdir, extra)
            if os.path.exists(p): shutil.copy(p, os.path.join(dst, extra))
        meta = {"name": name, "breaks_property": prop, "files": files, "needs_to_manifest": needs,
                "suite_passes_with_change": suite_ok, "demo_with_change": res["with"], "demo_without_change": res["without"],
                "what_i_ran": ran, "our_checks": verdicts,
                "detected_by": [c for c, v in verdicts.items() if v["exit"] == 1]}
        with open(os.path.join(dst, "meta.json"), "w") as f: json.dump(meta, f, indent=1)
    if not ok:
        print("NOT CONFIRMED - keep the worktree: suite_ok=%s demo_ok=%s" % (suite_ok, demo_ok))
    print(json.dumps({"name": name, "confirmed": ok, "suite_ok": suite_ok, "demo": res, "verdicts": {c: v["exit"] for c, v in verdicts.items()}}, indent=1))
    print("FILED %s" % name if ok else "NOT-FILED %s (suite_ok=%s demo_ok=%s) - DO NOT DELETE THE WORKTREE" % (name, suite_ok, demo_ok))
    return 0 if ok else 1

if __name__ == "__main__":
    sys.exit(main())
