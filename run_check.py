#!/usr/bin/env python3
"""Driver for the async-mqtt5 model-checking checks (see DESIGN.md section 8).

  python3 run_check.py <Cxx> [--tier quick|thorough]     run one property's check
  python3 run_check.py --setup                          build every harness for the current /repo tree
  python3 run_check.py --replay <file>                  re-execute a recorded violation without the explorer

Exit status: 0 = property held on everything explored (KNOWN-FINDING lines possible),
             1 = violation (line "VIOLATION property=<id> replay=<path>"),
             2 = the harness itself could not be built / failed its self-test (never a VIOLATION).
Every harness binary is rebuilt from /repo's current working tree; binaries are cached under
/verif/build/<target>-<content hash of /repo/include + harness sources + flags>.
"""
import fcntl, hashlib, json, os, re, shutil, subprocess, sys, time
from concurrent.futures import ThreadPoolExecutor

VERIF = os.path.dirname(os.path.abspath(__file__))
REPO = os.environ.get("VERIF_REPO", "/repo")
BUILD = os.path.join(VERIF, "build")
EVID = os.path.join(VERIF, "evidence")
if os.path.realpath(REPO) != "/repo":
    # checks pointed at a scratch tree (seeded-defect evaluation) must not overwrite the real evidence
    EVID = os.path.join(VERIF, "build", "tmp", "evidence-alt")
SRC = os.path.join(VERIF, "src")
NCPU = os.cpu_count() or 4

sys.path.insert(0, os.path.join(VERIF, "tools"))
from checks_config import TARGETS, CHECKS  # noqa: E402


# ----------------------------------------------------------------------------- build

def _tree_hash(paths):
    h = hashlib.sha256()
    for root in paths:
        if os.path.isfile(root):
            files = [root]
        else:
            files = []
            for d, _, fs in os.walk(root):
                for f in fs:
                    files.append(os.path.join(d, f))
        for f in sorted(files):
            h.update(f.encode()); h.update(b"\0")
            with open(f, "rb") as fh:
                h.update(fh.read())
            h.update(b"\0")
    return h


_repo_hash_cache = None


def repo_hash():
    global _repo_hash_cache
    if _repo_hash_cache is None:
        _repo_hash_cache = _tree_hash([os.path.join(REPO, "include")]).hexdigest()
    return _repo_hash_cache


def target_dir(name):
    t = TARGETS[name]
    h = hashlib.sha256()
    h.update(repo_hash().encode())
    srcs = [os.path.join(SRC, s) for s in t["sources"]] + [os.path.join(SRC, d) for d in t.get("deps", [])]
    h.update(_tree_hash(srcs).hexdigest().encode())
    h.update(json.dumps([t.get("cxx", "g++"), t["flags"], t.get("ldflags", []), t.get("fallback_flags")]).encode())
    return os.path.join(BUILD, "%s-%s" % (name, h.hexdigest()[:16]))


def _compile_one(cxx, flags, src, obj, log):
    cmd = [cxx, "-std=c++17", "-I" + os.path.join(REPO, "include"), "-I" + SRC] + flags + ["-c", src, "-o", obj]
    p = subprocess.run(cmd, stdout=subprocess.PIPE, stderr=subprocess.STDOUT, text=True)
    with open(log, "w") as f:
        f.write(" ".join(cmd) + "\n" + p.stdout)
    return p.returncode, p.stdout


def build_target(name, verbose=False):
    """Returns path of the binary; raises RuntimeError with compiler output on failure."""
    t = TARGETS[name]
    d = target_dir(name)
    exe = os.path.join(d, name)
    if os.path.exists(exe + ".ok"):
        return exe
    os.makedirs(d, exist_ok=True)
    with open(os.path.join(d, ".lock"), "w") as lk:
        fcntl.flock(lk, fcntl.LOCK_EX)
        if os.path.exists(exe + ".ok"):
            return exe
        t0 = time.time()
        cxx = t.get("cxx", "g++")
        attempts = [t["flags"]] + ([t["fallback_flags"]] if t.get("fallback_flags") else [])
        last_out = ""
        for ai, flags in enumerate(attempts):
            objs, jobs = [], []
            with ThreadPoolExecutor(max_workers=max(1, min(len(t["sources"]), NCPU))) as ex:
                for s in t["sources"]:
                    obj = os.path.join(d, s.replace("/", "_") + ".o")
                    objs.append(obj)
                    jobs.append(ex.submit(_compile_one, cxx, flags, os.path.join(SRC, s), obj, obj + ".log"))
                results = [j.result() for j in jobs]
            bad = [r for r in results if r[0] != 0]
            if bad:
                last_out = "\n".join(r[1][-6000:] for r in bad)
                continue
            cmd = [cxx] + [f for f in flags if f.startswith("-fsanitize") or f in ("-pthread", "-static-libasan")] + objs + ["-o", exe, "-pthread"] + t.get("ldflags", [])
            p = subprocess.run(cmd, stdout=subprocess.PIPE, stderr=subprocess.STDOUT, text=True)
            if p.returncode != 0:
                last_out = p.stdout[-6000:]
                continue
            with open(exe + ".ok", "w") as f:
                f.write(json.dumps({"fallback": ai > 0, "build_s": round(time.time() - t0, 1)}))
            for o in objs:
                try: os.unlink(o)
                except OSError: pass
            if verbose:
                print("built %s in %.1fs%s" % (name, time.time() - t0, " (fallback flags)" if ai else ""), flush=True)
            return exe
        raise RuntimeError("cannot build harness '%s' against %s:\n%s" % (name, REPO, last_out))


def gc_build_dirs():
    """Drop cached builds that do not belong to the current tree (keeps disk use bounded)."""
    if not os.path.isdir(BUILD):
        return
    keep = {os.path.basename(target_dir(n)) for n in TARGETS}
    entries = []
    for e in os.listdir(BUILD):
        p = os.path.join(BUILD, e)
        if os.path.isdir(p) and e not in keep and e != "tmp":
            entries.append((os.path.getmtime(p), p))
    entries.sort(reverse=True)
    for _, p in entries[len(TARGETS):]:   # keep one older generation for quick flip-flops
        shutil.rmtree(p, ignore_errors=True)


# ----------------------------------------------------------------------------- known findings

def load_known():
    p = os.path.join(VERIF, "known_findings.json")
    if not os.path.exists(p):
        return []
    with open(p) as f:
        return json.load(f).get("entries", [])


# ----------------------------------------------------------------------------- running

def run_job(job, tier, seed, outdir, deadline):
    exe = build_target(job["target"])
    out = os.path.join(outdir, "%s.json" % job["name"])
    if os.path.exists(out):
        os.unlink(out)
    args = [a.replace("{tier}", tier) for a in job.get("args", [])]
    if tier == "thorough":
        args += job.get("thorough_args", [])
    else:
        args += job.get("quick_args", [])
    jb = job.get("budget_thorough" if tier == "thorough" else "budget_quick")
    if jb:
        args += ["--budget", str(jb)]     # the explorer stops by itself at this wall-clock budget and reports the bound it completed
    env = dict(os.environ)
    env.update(job.get("env", {}))
    env["VERIF_SEED"] = str(seed)
    tmo = job.get("timeout_thorough" if tier == "thorough" else "timeout_quick", 3600 if tier == "thorough" else 900)
    tmo = max(5, min(tmo, deadline - time.time()))
    t0 = time.time()
    try:
        p = subprocess.run([exe] + args + ["--out", out], env=env, stdout=subprocess.PIPE, stderr=subprocess.PIPE, text=True, timeout=tmo)
        rc, err = p.returncode, p.stderr
    except subprocess.TimeoutExpired as e:
        rc, err = -9, "timeout after %.0fs" % tmo
    wall = time.time() - t0
    rep = None
    if os.path.exists(out):
        try:
            with open(out) as f:
                rep = json.load(f)
        except Exception as e:  # noqa
            err += "\nunreadable report: %s" % e
    return {"job": job, "rc": rc, "stderr": err[-4000:], "report": rep, "wall": wall, "cmd": [exe] + args}


def write_replay(prop, vio, job, cmd):
    os.makedirs(os.path.join(EVID, "replays"), exist_ok=True)
    dig = hashlib.sha256((vio["sig"] + json.dumps(vio.get("replay"), sort_keys=True)).encode()).hexdigest()[:12]
    path = os.path.join(EVID, "replays", "%s-%s.json" % (prop, dig))
    with open(path, "w") as f:
        json.dump({"property": prop, "signature": vio["sig"], "detail": vio["detail"], "count": vio.get("count", 1),
                   "target": job["target"], "job": job["name"], "replay": vio.get("replay"),
                   "how": "python3 run_check.py --replay " + path}, f, indent=1)
    return path


def run_check(prop, tier, seed):
    cfg = CHECKS[prop]
    t0 = time.time()
    budget = cfg.get("budget_thorough", 2400) if tier == "thorough" else cfg.get("budget_quick", 600)
    deadline = t0 + budget
    outdir = os.path.join(BUILD, "tmp", "%s-%d" % (prop, os.getpid()))
    os.makedirs(outdir, exist_ok=True)
    os.makedirs(EVID, exist_ok=True)
    try:
        for j in cfg["jobs"]:
            build_target(j["target"])
    except RuntimeError as e:
        print("HARNESS-ERROR property=%s: %s" % (prop, e), file=sys.stderr)
        return 2
    results = []
    par = cfg.get("parallel_jobs", 1)
    jobs = [j for j in cfg["jobs"] if tier in j.get("tiers", ["quick", "thorough"])]
    with ThreadPoolExecutor(max_workers=par) as ex:
        results = list(ex.map(lambda j: run_job(j, tier, seed, outdir, deadline), jobs))
    cov = {"evaluations": 0, "distinct_nontrivial": 0, "states": 0, "transitions": 0, "traces_validated_against_impl": 0,
           "exhaustive": True, "rule": "", "samples": [], "jobs": []}
    violations, harness_errors, capped = [], [], []
    rules = []
    for r in results:
        rep = r["report"]
        jn = r["job"]["name"]
        if r["rc"] == -9:
            capped.append(jn)
            cov["exhaustive"] = False
            cov["jobs"].append({"job": jn, "timed_out": True, "wall_s": round(r["wall"], 1)})
            continue
        if rep is None or r["rc"] != 0:
            harness_errors.append("%s: rc=%s %s" % (jn, r["rc"], r["stderr"][-1500:]))
            continue
        for k in ("evaluations", "distinct_nontrivial", "states", "transitions", "traces_validated_against_impl"):
            cov[k] += int(rep.get(k, 0))
        cov["exhaustive"] = cov["exhaustive"] and bool(rep.get("exhaustive", False))
        if rep.get("rule"):
            rules.append("[%s] %s" % (jn, rep["rule"]))
        for s in rep.get("samples", [])[:4]:
            cov["samples"].append({"job": jn, "case": s})
        cov["jobs"].append({"job": jn, "wall_s": round(r["wall"], 1), "evaluations": rep.get("evaluations"),
                            "states": rep.get("states"), "transitions": rep.get("transitions"), "notes": rep.get("notes", {})})
        for v in rep.get("violations", []):
            violations.append((v, r["job"], r["cmd"]))
        nb = rep.get("notes", {})
        if "deviation_bound_completed_for_all_scenarios" in nb and not rep.get("exhaustive", False):
            # budget hit: say what was covered completely below the cap
            capped.append("%s:budget(all scenarios complete up to %s of %s deviations)" % (jn, nb["deviation_bound_completed_for_all_scenarios"], nb.get("deviation_bound_max")))
    cov["rule"] = " || ".join(rules)
    if capped:
        cov["caps_hit"] = capped
    findings = {k["sig"]: k for k in load_known() if k.get("status") == "finding"}
    new, listed, other_props = [], [], []
    for v, job, cmd in violations:
        sig = v["sig"]
        if sig.startswith("HARNESS:"):
            harness_errors.append("%s: %s" % (sig, v["detail"]))
            continue
        if not sig.startswith(prop + ":") and (sig.startswith("C19:process-death:") or sig.startswith("C19:livelock:")) and not prop.startswith("C19"):
            # the engine's generic crash / hang detector fired in an execution explored for this property:
            # an execution that dies or never goes quiescent cannot satisfy it
            v = dict(v); v["sig"] = sig = prop + ":execution-" + sig[4:]
        if sig in findings:
            listed.append((v, findings[sig]))
        else:
            # monitors of other properties run in this property's scenarios too (wire well-formedness, id discipline,
            # completion discipline ...); those scenarios are not part of the other property's own set, so a signal seen
            # only here is reported here, under the property whose oracle fired
            if not sig.startswith(prop + ":"): other_props.append(sig)
            new.append((v, job, cmd))
    if other_props:
        cov["other_property_signals"] = sorted(set(other_props))[:20]
    wall = time.time() - t0
    evidence = {"property_id": prop, "tier": tier, "seed": seed, "level": "model_checking", "coverage": cov,
                "assumptions": cfg.get("assumptions", []), "wall_s": round(wall, 2), "violations": len(new),
                "known_findings_reported": [k["sig"] for _, k in listed], "repo_include_hash": repo_hash()[:16]}
    if harness_errors:
        evidence["harness_errors"] = harness_errors[:5]
    if not cov["samples"]:
        cov["samples"] = [{"note": "no sample produced"}]
    with open(os.path.join(EVID, "%s.json" % prop), "w") as f:
        json.dump(evidence, f, indent=1)
    shutil.rmtree(outdir, ignore_errors=True)
    for v, k in listed:
        print("KNOWN-FINDING: property=%s %s [%s] (seen %s times)" % (k.get("property", prop), k.get("what", v["detail"]), v["sig"], v.get("count", 1)))
    if harness_errors:
        for h in harness_errors[:5]:
            print("HARNESS-ERROR property=%s %s" % (prop, h), file=sys.stderr)
        return 2
    if new:
        for v, job, cmd in new:
            vprop = v["sig"].split(":")[0] if re.match(r"^C\d\d:", v["sig"]) else prop
            path = write_replay(vprop, v, job, cmd)
            print("VIOLATION property=%s replay=%s" % (vprop, path))
            print("  %s: %s (x%s)" % (v["sig"], v["detail"], v.get("count", 1)))
        return 1
    print("OK property=%s tier=%s evaluations=%d states=%d transitions=%d exhaustive=%s wall=%.1fs%s" % (
        prop, tier, cov["evaluations"], cov["states"], cov["transitions"], cov["exhaustive"], wall,
        (" caps=" + ",".join(capped)) if capped else ""))
    return 0


def replay(path):
    with open(path) as f:
        r = json.load(f)
    r["_path"] = os.path.abspath(path)
    from checks_config import replay_command
    exe = build_target(r["target"])
    cmd = replay_command(r, exe)
    print("replaying: " + " ".join(cmd))
    return subprocess.run(cmd).returncode


def setup():
    t0 = time.time()
    os.makedirs(BUILD, exist_ok=True)
    errs = []
    # heavy targets compile several TUs each; run a few targets at a time
    with ThreadPoolExecutor(max_workers=6) as ex:
        futs = {n: ex.submit(build_target, n, True) for n in TARGETS}
        for n, f in futs.items():
            try:
                f.result()
            except RuntimeError as e:
                errs.append(str(e))
    gc_build_dirs()
    if errs:
        print("\n".join(errs), file=sys.stderr)
        return 2
    print("setup ok: %d targets in %.0fs" % (len(TARGETS), time.time() - t0))
    return 0


def main():
    a = sys.argv[1:]
    if not a:
        print(__doc__); return 2
    if a[0] == "--setup":
        return setup()
    if a[0] == "--replay":
        return replay(a[1])
    prop = a[0]
    tier = os.environ.get("VERIF_TIER", "quick")
    if "--tier" in a:
        tier = a[a.index("--tier") + 1]
    if tier not in ("quick", "thorough"):
        tier = "quick"
    seed = int(os.environ.get("VERIF_SEED", "0") or 0)
    if prop not in CHECKS:
        print("unknown property " + prop, file=sys.stderr); return 2
    return run_check(prop, tier, seed)


if __name__ == "__main__":
    sys.exit(main())
